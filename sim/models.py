"""Uniform access to the seven mixture trainers of pb_bss: how to build the
call, where the component densities and the weights live.  Used by all three
checks.  Nothing here re-implements pb_bss; it only routes arguments."""
import numpy as np

MIXTURES = ('cacgmm', 'cwmm', 'cbmm', 'gmm', 'vmfmm', 'gcacgmm', 'vmfcacgmm')
INTEGRATION = ('gcacgmm', 'vmfcacgmm')
COMPLEX_OBS = ('cacgmm', 'cwmm', 'cbmm', 'gcacgmm', 'vmfcacgmm')


# C02 / C08 hand the library private writable copies of every array (whether
# inputs are left untouched / accepted read-only is C20's business, and an
# input-mutating library must not corrupt the oracles' own data); C20 hands
# over the read-only originals.
COPY_INPUTS = False


def _lib(a):
    if a is None or not COPY_INPUTS or not isinstance(a, np.ndarray):
        return a
    b = np.array(a, copy=True, order='K')
    b.setflags(write=True)
    return b


def trainer_class(kind):
    from pb_bss import distribution as d
    return {
        'cacgmm': d.CACGMMTrainer, 'cwmm': d.CWMMTrainer,
        'cbmm': d.CBMMTrainer, 'gmm': d.GMMTrainer, 'vmfmm': d.VMFMMTrainer,
        'gcacgmm': d.GCACGMMTrainer, 'vmfcacgmm': d.VMFCACGMMTrainer,
    }[kind]


def new_trainer(kind, trainer_kwargs=None):
    return trainer_class(kind)(**(trainer_kwargs or {}))


def as_axis(wca):
    """JSON form -> the value handed to the library (int or tuple)."""
    if isinstance(wca, (list, tuple)):
        return tuple(int(a) for a in wca)
    return int(wca)


def fit_kwargs(kind, opts):
    """Translate the JSON option dict of a program into keyword arguments."""
    kw = {}
    for k, v in opts.items():
        if k == 'weight_constant_axis':
            kw[k] = as_axis(v)
        elif k in ('saliency_kind', 'aligner', 'trainer_kwargs'):
            continue
        else:
            kw[k] = v
    return kw


def call_fit(kind, trainer, obs, emb, initialization, iterations, opts,
             saliency=None, num_classes=None, method='fit', extra=None):
    kw = fit_kwargs(kind, opts)
    if extra:
        kw.update({k: _lib(v) for k, v in extra.items()})
    if saliency is not None:
        kw['saliency'] = _lib(saliency)
    if initialization is not None:
        kw['initialization'] = _lib(initialization)
    else:
        kw['num_classes'] = num_classes
    kw['iterations'] = iterations
    fn = getattr(trainer, method)
    if kind in INTEGRATION:
        return fn(_lib(obs), _lib(emb), **kw)
    return fn(_lib(obs), **kw)


def component(kind, model):
    """(list of component distribution objects of the model)."""
    if kind == 'cacgmm':
        return model.cacg
    if kind == 'cwmm':
        return model.complex_watson
    if kind == 'cbmm':
        return model.complex_bingham
    if kind == 'gmm':
        return model.gaussian
    if kind == 'vmfmm':
        return model.vmf
    raise ValueError(kind)


def _unit(y):
    n = np.linalg.norm(y, axis=-1, keepdims=True)
    return y / np.where(n == 0, 1.0, n)


def unsqueeze(weight, axes, ndim):
    """Insert singleton axes at the (negative) positions ``axes`` so that the
    result has ``ndim`` axes (how the integration models store weights)."""
    w = np.asarray(weight)
    axes = sorted(a % ndim for a in axes)
    shape = list(w.shape)
    for p in axes:
        shape.insert(p, 1)
    return w.reshape(shape)


def component_log_pdf(kind, model, obs, emb=None):
    """log p_k(y_n) as reported by the *component distributions' public
    log_pdf*, shape (..., K, N).  For the integration models the sum of the
    exponent-weighted stream log densities."""
    obs, emb = _lib(obs), _lib(emb)
    if kind == 'cacgmm':
        return model.cacg.log_pdf(obs[..., None, :, :])
    if kind == 'cwmm':
        return model.complex_watson.log_pdf(_unit(obs)[..., None, :, :])
    if kind == 'cbmm':
        return model.complex_bingham.log_pdf(_unit(obs)[..., None, :, :])
    if kind == 'gmm':
        return model.gaussian.log_pdf(obs[..., None, :, :])
    if kind == 'vmfmm':
        return model.vmf.log_pdf(obs[..., None, :, :])
    if kind in INTEGRATION:
        F, T, D = obs.shape
        E = emb.shape[-1]
        spatial = model.cacg.log_pdf(obs[..., None, :, :])       # (F, K, T)
        dist = model.gaussian if kind == 'gcacgmm' else model.vmf
        spectral = dist.log_pdf(np.reshape(emb, (1, F * T, E)))   # (K, F*T)
        K = spectral.shape[0]
        spectral = np.transpose(np.reshape(spectral, (K, F, T)), (1, 0, 2))
        return model.spatial_weight * spatial + model.spectral_weight * spectral
    raise ValueError(kind)


def broadcast_weight(kind, model, shape):
    """Stored mixture weights broadcast to the affiliation shape (..., K, N)."""
    if kind in INTEGRATION:
        w = unsqueeze(model.weight, model.weight_constant_axis, len(shape))
    else:
        w = np.asarray(model.weight)
    return np.broadcast_to(w, shape)


def mixture_log_likelihood(kind, model, obs, emb=None, saliency=None):
    """sum_n s_n log sum_k pi_k p_k(y_n), summed over all leading slices."""
    from scipy.special import logsumexp
    lp = component_log_pdf(kind, model, obs, emb)
    w = broadcast_weight(kind, model, lp.shape)
    per_obs = logsumexp(lp, axis=-2, b=w)
    if saliency is not None:
        per_obs = per_obs * saliency
    return float(np.sum(per_obs))


def bayes_posterior(kind, model, obs, emb=None, source_activity_mask=None,
                    affiliation_eps=0.0, log_pdf=None):
    """Bayes' rule on the model's own component densities and weights."""
    lp = component_log_pdf(kind, model, obs, emb) if log_pdf is None else log_pdf
    w = broadcast_weight(kind, model, lp.shape)
    a = np.exp(lp - np.max(lp, axis=-2, keepdims=True)) * w
    if source_activity_mask is not None:
        a = a * source_activity_mask
    den = np.sum(a, axis=-2, keepdims=True)
    a = a / np.maximum(den, np.finfo(a.dtype).tiny)
    if affiliation_eps:
        a = np.clip(a, affiliation_eps, 1 - affiliation_eps)
    return a
