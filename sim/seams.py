"""Seams the simulator owns (DESIGN.md §2.2).

* step observer      -- pb_bss._verif (the one guarded hook in /repo)
* LAPACK shim        -- numpy.linalg.{eigh,eig,solve,lstsq} called from pb_bss code
* interrupt injector -- sys.settrace line events in pb_bss frames
* RNG seam           -- the process-global legacy numpy generator
* error-state seam   -- np.geterr / printoptions snapshots

Nothing here draws random numbers or reads a clock.
"""
import hashlib
import sys
import threading

import numpy as np

from . import env


class SimulatedCancel(Exception):
    """Raised by the step observer: the fit is cancelled at a step boundary."""


class SimulatedInterrupt(BaseException):
    """Raised at the n-th Python line event inside pb_bss (KeyboardInterrupt /
    MemoryError like: not an ``Exception``)."""


# --------------------------------------------------------------------------
# step observer
# --------------------------------------------------------------------------

class observe:
    """Context manager registering ``fn(trainer, iteration, model, affiliation,
    **state)`` as the EM step observer."""

    def __init__(self, fn):
        self.fn = fn

    def __enter__(self):
        from pb_bss import _verif
        self._verif = _verif
        self.prev = _verif.set_observer(self.fn)
        return self

    def __exit__(self, *exc):
        self._verif.set_observer(self.prev)
        return False


# --------------------------------------------------------------------------
# LAPACK shim
# --------------------------------------------------------------------------

LAPACK_FUNCS = ('eigh', 'eig', 'solve', 'lstsq')
LAPACK_MESSAGES = {
    'eigh': 'Eigenvalues did not converge',
    'eig': 'Eigenvalues did not converge',
    'solve': 'Singular matrix',
    'lstsq': 'SVD did not converge in Linear Least Squares',
}


class lapack_shim:
    """While active, numpy.linalg.{eigh,eig,solve,lstsq} are wrapped.  Calls
    issued from files under the repo's pb_bss/ are counted per function; the
    plan ``{func: set(call indices)}`` makes those calls raise LinAlgError
    (without touching LAPACK).  Calls from anywhere else are passed through
    uncounted."""

    def __init__(self, plan=None):
        self.plan = {k: set(v) for k, v in (plan or {}).items()}
        self.counts = {f: 0 for f in LAPACK_FUNCS}
        self.fired = []   # (func, index, caller file:line)

    def _wrap(self, name, real):
        shim = self

        def wrapped(*args, **kwargs):
            frame = sys._getframe(1)
            filename = frame.f_code.co_filename
            if filename.startswith(env.PKG_DIR):
                index = shim.counts[name]
                shim.counts[name] = index + 1
                if index in shim.plan.get(name, ()):
                    site = f'{filename[len(env.REPO) + 1:]}:{frame.f_lineno}'
                    shim.fired.append((name, index, site))
                    raise np.linalg.LinAlgError(LAPACK_MESSAGES[name])
            return real(*args, **kwargs)

        wrapped.__name__ = name
        wrapped.__wrapped__ = real
        return wrapped

    def __enter__(self):
        import pb_bss.extraction.beamformer as bf
        self._saved = []
        for name in LAPACK_FUNCS:
            real = getattr(np.linalg, name)
            self._saved.append((np.linalg, name, real))
            setattr(np.linalg, name, self._wrap(name, real))
        # beamformer.py binds ``solve`` at import time
        self._saved.append((bf, 'solve', bf.solve))
        bf.solve = getattr(np.linalg, 'solve')
        return self

    def __exit__(self, *exc):
        for owner, name, real in reversed(self._saved):
            setattr(owner, name, real)
        return False


# --------------------------------------------------------------------------
# interrupt injector
# --------------------------------------------------------------------------

class line_tracer:
    """Counts Python ``line`` events in frames whose code lives under pb_bss/.
    With ``raise_at=n`` the n-th event (0-based) raises SimulatedInterrupt in
    the traced frame.  ``sites`` collects the distinct file:line seen."""

    _WITH_LINES = {}

    def __init__(self, raise_at=None, collect_sites=False):
        self.raise_at = raise_at
        self.count = 0
        self.fired_site = None
        self.sites = set() if collect_sites else None

    @classmethod
    def _with_lines(cls, code):
        """Line numbers of ``with`` headers of a code object.  CPython never
        delivers an asynchronous exception between ``__enter__`` and the
        protected block, nor between the block and ``__exit__``; both points
        are attributed to the ``with`` line, so the injector must not raise
        on a line event of such a line (it would model a crash that cannot
        happen and leak the context manager)."""
        lines = cls._WITH_LINES.get(code)
        if lines is None:
            import dis
            lines = set()
            for ins in dis.get_instructions(code):
                if ins.opname in ('BEFORE_WITH', 'BEFORE_ASYNC_WITH',
                                  'WITH_EXCEPT_START', 'SETUP_WITH'):
                    ln = ins.positions.lineno if ins.positions else None
                    if ln is not None:
                        lines.add(ln)
            cls._WITH_LINES[code] = lines
        return lines

    def _global(self, frame, event, arg):
        if event == 'call' and frame.f_code.co_filename.startswith(env.PKG_DIR):
            return self._local
        return None

    def _local(self, frame, event, arg):
        if event == 'line':
            n = self.count
            self.count = n + 1
            if self.sites is not None:
                self.sites.add(
                    (frame.f_code.co_filename[len(env.REPO) + 1:],
                     frame.f_lineno))
            if self.raise_at is not None and n >= self.raise_at \
                    and frame.f_lineno not in self._with_lines(frame.f_code):
                self.fired_site = (
                    f'{frame.f_code.co_filename[len(env.REPO) + 1:]}'
                    f':{frame.f_lineno}')
                sys.settrace(None)
                raise SimulatedInterrupt(self.fired_site)
        return self._local

    def __enter__(self):
        self._prev = sys.gettrace()
        sys.settrace(self._global)
        return self

    def __exit__(self, *exc):
        sys.settrace(self._prev)
        return False


# --------------------------------------------------------------------------
# RNG seam (the system's own process-global generator)
# --------------------------------------------------------------------------

def rng_digest():
    s = np.random.get_state()
    h = hashlib.sha1()
    h.update(s[0].encode())
    h.update(np.ascontiguousarray(s[1]).tobytes())
    h.update(repr(s[2:]).encode())
    return h.hexdigest()[:16]


def rng_get():
    return np.random.get_state()


def rng_set(state):
    np.random.set_state(state)


def rng_seed(seed):
    np.random.seed(int(seed) % (2 ** 32))


# --------------------------------------------------------------------------
# error-state seam
# --------------------------------------------------------------------------

def global_state_snapshot():
    import warnings
    po = np.get_printoptions()
    snap = {
        'geterr': dict(np.geterr()),
        'printoptions': {k: repr(v) for k, v in sorted(po.items())},
        # the interpreter-wide warning filter list (a filter installed outside
        # warnings.catch_warnings() changes what later calls report / raise)
        'warning_filters': [
            (f[0], getattr(f[1], 'pattern', None), f[2].__name__,
             getattr(f[3], 'pattern', None), f[4]) for f in warnings.filters],
    }
    # process-wide settings of the numeric back ends
    snap['thread_pools'] = thread_limits()
    try:
        import scipy.special
        snap['scipy_special_err'] = dict(scipy.special.geterr())
    except Exception:   # noqa
        pass
    snap['errcall'] = repr(np.geterrcall())
    snap['recursionlimit'] = sys.getrecursionlimit()
    # interpreter- / process-wide settings a numerical library has no business
    # changing
    import decimal, gc, locale, logging, os, random, signal   # noqa
    snap['bufsize'] = np.getbufsize()
    snap['environ'] = hash(frozenset(getattr(os.environ, '_data', os.environ).items()))
    snap['cwd'] = os.getcwd()
    snap['python_random'] = hash(random.getstate())
    snap['decimal'] = repr(decimal.getcontext())
    root = logging.getLogger()
    snap['logging'] = (root.level, len(root.handlers), logging.root.manager.disable)
    snap['gc'] = (gc.isenabled(), gc.get_threshold())
    snap['sigint'] = repr(signal.getsignal(signal.SIGINT))
    snap['profile'] = repr(sys.getprofile())
    snap['locale'] = locale.setlocale(locale.LC_ALL)
    snap['threads'] = threading.active_count()
    # the namespaces of the numeric libraries (a monkeypatch / shim left
    # behind); sub-modules that appear through lazy imports are not counted
    import types
    import scipy
    import scipy.linalg
    import scipy.special
    snap['namespaces'] = hash(tuple(
        hash(frozenset((k, id(v)) for k, v in vars(m).items()
                       if not isinstance(v, types.ModuleType)))
        for m in (np, np.linalg, scipy, scipy.linalg, scipy.special)))
    try:
        import sklearn
        snap['sklearn_config'] = {k: repr(v) for k, v in
                                  sorted(sklearn.get_config().items())}
    except Exception:   # noqa
        pass
    return snap


# --------------------------------------------------------------------------
# thread-pool seam (BLAS / OpenMP pools of the process)
# --------------------------------------------------------------------------

_TP = None


def _threadpools():
    """Controllers of the native thread pools loaded in this process (created
    once, after every pb_bss module and its dependencies were imported)."""
    global _TP
    if _TP is None:
        try:
            from threadpoolctl import ThreadpoolController
            _TP = list(ThreadpoolController().lib_controllers)
        except Exception:   # noqa
            _TP = []
    return _TP


def thread_limits():
    return [(c.user_api, c.internal_api, int(c.get_num_threads()))
            for c in _threadpools()]


def set_blas_threads(n):
    for c in _threadpools():
        if c.user_api == 'blas':
            c.set_num_threads(int(n))
