"""Spec-EM: a small executable reference model of the documented estimators,
written from the formulas in property C08 with explicit loops over leading
indices and classes -- independent of how pb_bss computes them.

Each ``check_*`` function compares what the implementation produced with the
reference and returns ``None`` (agree) or a short string (first disagreement).
All comparisons are made in representation-independent quantities.
"""
import decimal
import itertools
import math

import numpy as np

TOL = 1e-8

# largest observed deviation / tolerance per comparison kind in this run
# (reported in the evidence as the tolerance margin actually used)
MARGINS = {}


def note(kind, deviation, tolerance):
    if tolerance > 0 and deviation == deviation:
        r = float(deviation) / float(tolerance)
        if r > MARGINS.get(kind, 0.0):
            MARGINS[kind] = r


def _rel(a, b):
    a = np.asarray(a)
    b = np.asarray(b)
    scale = max(float(np.max(np.abs(b))) if b.size else 0.0, 1e-300)
    return float(np.max(np.abs(a - b))) / scale if a.size else 0.0


def unit_rows(y):
    n = np.linalg.norm(y, axis=-1, keepdims=True)
    return y / np.where(n == 0, 1.0, n)


# --------------------------------------------------------------------------
# mixture weights
# --------------------------------------------------------------------------

def spec_weights(aff, saliency, wca, renormalise=True, return_defined=False):
    """Saliency-weighted mean affiliation over the tied axes, broadcast to the
    affiliation shape; with ``renormalise`` additionally renormalised over the
    classes.  (The two readings coincide whenever every affiliation column
    sums to one; they differ for clipped or all-zero columns, and the
    property text allows either.)"""
    aff = np.asarray(aff, dtype=float)
    K = aff.shape[-2]
    axes = (wca,) if isinstance(wca, int) else tuple(wca)
    axes = tuple(a % aff.ndim for a in axes)
    if (aff.ndim - 2) in axes:
        if return_defined:
            return np.full(aff.shape, 1.0 / K), np.ones(aff.shape, dtype=bool)
        return np.full(aff.shape, 1.0 / K)
    if saliency is None:
        sal = np.ones(aff.shape[:-2] + aff.shape[-1:])
    else:
        sal = np.broadcast_to(np.asarray(saliency, dtype=float),
                              aff.shape[:-2] + aff.shape[-1:])
    g = aff * sal[..., None, :]
    num = g.sum(axis=axes, keepdims=True)
    if renormalise:
        den = num.sum(axis=-2, keepdims=True)
    else:
        den = sal[..., None, :].sum(axis=axes, keepdims=True)
    w = num / np.where(den == 0, 1.0, den)
    if return_defined:
        # where the denominator vanishes (e.g. every posterior of a tied
        # group underflowed to zero) the estimator is 0/0: undefined
        return (np.broadcast_to(w, aff.shape),
                np.broadcast_to(den != 0, aff.shape))
    return np.broadcast_to(w, aff.shape)


def check_weights(w_impl_broadcast, aff, saliency, wca, slack=0.0):
    w = np.asarray(w_impl_broadcast)
    d = []
    for renorm in (True, False):
        ws, defined = spec_weights(aff, saliency, wca, renorm, True)
        if not np.any(defined):
            return None
        with np.errstate(invalid='ignore'):
            dev = np.abs(w - ws)[defined]
        di = float(np.max(dev)) if np.all(np.isfinite(dev)) else float('inf')
        if di <= TOL + slack:
            note('weights', di, TOL + slack)
            return None
        d.append(di)
    d1, d2 = d
    return f'mixture weights differ from the (saliency-weighted) mean ' \
           f'affiliation over the tied axes by {min(d1, d2):.3e}'


# --------------------------------------------------------------------------
# cACG (one Tyler / Ito MM step)
# --------------------------------------------------------------------------

def spec_cacg_covariance(z, gamma, qf, hermitize=True,
                         covariance_norm='eigenvalue', eigenvalue_floor=1e-10):
    """z: (N, D) unit rows; gamma, qf: (N,).  Returns the normalised, floored
    covariance matrix B' = V diag(lambda') V^H."""
    N, D = z.shape
    B = np.zeros((D, D), dtype=complex)
    s = 0.0
    for n in range(N):
        s += gamma[n]
        if not np.any(z[n]):
            continue      # a silent frame contributes z z^H = 0 for any q > 0
        B += (gamma[n] / qf[n]) * np.outer(z[n], z[n].conj())
    B = D * B / s
    if hermitize:
        B = (B + B.conj().T) / 2
    if covariance_norm == 'trace':
        B = B / np.trace(B).real
    lam, V = np.linalg.eigh(B)
    if covariance_norm == 'eigenvalue':
        lam = lam / lam.max()
        lam = np.maximum(lam, eigenvalue_floor)
    else:
        lam = np.maximum(lam, lam.max() * eigenvalue_floor)
    return (V * lam) @ V.conj().T


def impl_cacg_covariance(cacg, index):
    V = np.asarray(cacg.covariance_eigenvectors)[index]
    lam = np.asarray(cacg.covariance_eigenvalues)[index]
    return (V * lam) @ V.conj().T


def check_cacg(cacg, z, gamma, qf, opts):
    """z: (..., N, D); gamma, qf: (..., K, N)."""
    lead = gamma.shape[:-2]
    K = gamma.shape[-2]
    ev = np.asarray(cacg.covariance_eigenvalues)
    if ev.shape != lead + (K, z.shape[-1]):
        return f'cACG eigenvalue shape {ev.shape}, expected {lead + (K, z.shape[-1])}'
    for idx in np.ndindex(*lead):
        for k in range(K):
            Cs = spec_cacg_covariance(
                z[idx], gamma[idx][k], qf[idx][k],
                hermitize=opts.get('hermitize', True),
                covariance_norm=opts.get('covariance_norm', 'eigenvalue'),
                eigenvalue_floor=opts.get('eigenvalue_floor', 1e-10))
            Ci = impl_cacg_covariance(cacg, idx + (k,))
            if not np.any(Cs) or not np.all(np.isfinite(Cs)):
                # every frame with weight for this class is silent (z = 0)
                # and there is no eigenvalue floor: the update is the zero
                # matrix, a cACG without support -- nothing to compare
                note('cacg_zero_update_not_judged', 0.0, 1.0)
                continue
            r = _rel(Ci, Cs)
            note('cacg_covariance', r, TOL)
            if not r <= TOL:
                return f'cACG covariance of class {k} at {idx} differs from ' \
                       f'the eigenvalue-normalised Tyler update by {r:.3e} (relative)'
            # the small eigenvalues (invisible in the matrix norm) one by one:
            # they carry the floor
            li = np.sort(np.asarray(ev[idx + (k,)], dtype=float))
            ls = np.linalg.eigvalsh(Cs)
            tol_e = 1e-6 * np.abs(ls) + 1e-12 * float(np.max(np.abs(ls)))
            re = float(np.max(np.abs(li - ls) / tol_e))
            note('cacg_eigenvalues', re, 1.0)
            if not re <= 1.0:
                j = int(np.argmax(np.abs(li - ls) / tol_e))
                return f'cACG eigenvalue {j} of class {k} at {idx} is ' \
                       f'{li[j]:.6e}, the floored eigenvalue of the ' \
                       f'normalised Tyler update is {ls[j]:.6e}'
    return None


def quadratic_form(cacg, z):
    """z^H B^-1 z for every class: z (..., N, D) -> (..., K, N)."""
    V = np.asarray(cacg.covariance_eigenvectors)   # (..., K, D, D)
    lam = np.asarray(cacg.covariance_eigenvalues)  # (..., K, D)
    proj = np.einsum('...kde,...nd->...kne', V.conj(), z)
    return np.einsum('...kne,...ke->...kn', np.abs(proj) ** 2, 1.0 / lam)


# --------------------------------------------------------------------------
# complex Watson
# --------------------------------------------------------------------------

def _log_kummer(a, b, x):
    """log 1F1(a; b; x) for x >= 0 by its power series in the log domain."""
    if x == 0:
        return 0.0
    n_max = int(x + 40 * math.sqrt(x) + 120)
    n = np.arange(1, n_max + 1)
    log_ratio = np.log(a + n - 1) - np.log(b + n - 1) + math.log(x) - np.log(n)
    log_terms = np.concatenate([[0.0], np.cumsum(log_ratio)])
    m = log_terms.max()
    return float(m + np.log(np.sum(np.exp(log_terms - m))))


def watson_ratio(kappa, D):
    """Top-eigenvalue of the expected scatter of a complex Watson with
    concentration kappa:  1F1(2; D+1; k) / (D 1F1(1; D; k))."""
    return math.exp(_log_kummer(2, D + 1, kappa) - _log_kummer(1, D, kappa)) / D


_RATIO_CACHE = {}


def _ratio_cached(kappa, D):
    key = (float(kappa), int(D))
    if key not in _RATIO_CACHE:
        _RATIO_CACHE[key] = watson_ratio(kappa, D)
    return _RATIO_CACHE[key]


def check_watson(watson, z, gamma, max_concentration=500.0, ratio_tol=1e-6,
                 stats=None):
    """z: (..., N, D) unit rows, gamma: (..., K, N)."""
    lead = gamma.shape[:-2]
    K = gamma.shape[-2]
    D = z.shape[-1]
    mode = np.asarray(watson.mode)
    conc = np.asarray(watson.concentration)
    if mode.shape != lead + (K, D) or conc.shape != lead + (K,):
        return f'Watson parameter shapes {mode.shape}, {conc.shape}'
    r_max = _ratio_cached(max_concentration, D)
    for idx in np.ndindex(*lead):
        for k in range(K):
            g = gamma[idx][k]
            S = np.zeros((D, D), dtype=complex)
            for n in range(z.shape[-2]):
                S += g[n] * np.outer(z[idx][n], z[idx][n].conj())
            S /= g.sum()
            lam_max = float(np.linalg.eigvalsh((S + S.conj().T) / 2)[-1])
            m = mode[idx + (k,)]
            nrm = float(np.linalg.norm(m))
            if not abs(nrm - 1) <= 1e-8:
                return f'Watson mode of class {k} at {idx} has norm {nrm!r}'
            ray = float((m.conj() @ S @ m).real)
            note('watson_rayleigh', max(lam_max - ray, 0.0), 1e-9)
            if not ray >= lam_max - 1e-9:
                return f'Watson mode of class {k} at {idx} is not the ' \
                       f'principal eigenvector of the weighted scatter ' \
                       f'(Rayleigh quotient {ray!r} < top eigenvalue {lam_max!r})'
            c = float(conc[idx + (k,)])
            if not (0 <= c <= max_concentration * (1 + 1e-12)):
                return f'Watson concentration {c!r} outside [0, {max_concentration}]'
            if stats is not None:
                stats('reach:watson_concentration_' + (
                    'at_max' if c >= max_concentration * (1 - 1e-12) else
                    'zero' if c <= 1e-3 else 'below_1' if c < 1 else
                    '1_to_10' if c < 10 else '10_to_100' if c < 100 else
                    'above_100'))
            if c >= max_concentration * (1 - 1e-12):
                ok = lam_max >= r_max - ratio_tol
            elif c <= 1e-3:
                ok = lam_max <= _ratio_cached(1e-3, D) + ratio_tol
            else:
                dev = abs(watson_ratio(c, D) - lam_max)
                note('watson_ratio', dev, ratio_tol)
                ok = dev <= ratio_tol
            if not ok:
                return f'Watson concentration {c!r} of class {k} at {idx}: ' \
                       f'its eigenvalue ratio {watson_ratio(c, D)!r} does not ' \
                       f'equal the top scatter eigenvalue {lam_max!r}'
    return None


# --------------------------------------------------------------------------
# von Mises-Fisher
# --------------------------------------------------------------------------

def check_vmf(vmf, y, gamma, min_concentration=1e-10, max_concentration=500.0,
              stats=None):
    """y: (N, D) unit rows (class axis comes from gamma (K, N)) or
    (..., N, D) with gamma (..., K, N)."""
    lead = gamma.shape[:-2]
    K = gamma.shape[-2]
    D = y.shape[-1]
    mean = np.asarray(vmf.mean)
    conc = np.asarray(vmf.concentration)
    if mean.shape != lead + (K, D) or conc.shape != lead + (K,):
        return f'vMF parameter shapes {mean.shape}, {conc.shape}'
    for idx in np.ndindex(*lead):
        for k in range(K):
            g = gamma[idx][k]
            r = np.zeros(D)
            for n in range(y.shape[-2]):
                r += g[n] * y[idx][n]
            nr = float(np.linalg.norm(r))
            rbar = nr / float(g.sum())
            if 1 - rbar < 1e-12:
                # all mass on one direction: the Banerjee formula has its
                # pole here and the sign of 1 - rbar**2 is rounding noise
                kap = None
            else:
                kap = (rbar * D - rbar ** 3) / (1 - rbar ** 2)
                kap = min(max(kap, min_concentration), max_concentration)
            d = float(np.max(np.abs(mean[idx + (k,)] - r / nr)))
            note('vmf_mean', d, TOL)
            if not d <= TOL:
                return f'vMF mean of class {k} at {idx} differs from the ' \
                       f'normalised weighted resultant by {d:.3e}'
            c = float(conc[idx + (k,)])
            if stats is not None:
                stats('reach:vmf_concentration_' + (
                    'at_max' if c >= max_concentration else
                    'at_min' if c <= min_concentration else
                    'below_10' if c < 10 else 'above_10'))
            if kap is None:
                if not (min_concentration <= c <= max_concentration):
                    return f'vMF concentration {c!r} outside its clipping range'
                continue
            note('vmf_concentration', abs(c - kap), TOL * max(1.0, abs(kap)))
            if not abs(c - kap) <= TOL * max(1.0, abs(kap)):
                return f'vMF concentration {c!r} of class {k} at {idx} differs ' \
                       f'from the clipped Banerjee estimate {kap!r}'
    return None


# --------------------------------------------------------------------------
# Gaussian (real) and complex Gaussian
# --------------------------------------------------------------------------

def check_gaussian(gauss, y, gamma, covariance_type):
    lead = gamma.shape[:-2]
    K = gamma.shape[-2]
    D = y.shape[-1]
    mean = np.asarray(gauss.mean)
    cov = np.asarray(gauss.covariance)
    if mean.shape != lead + (K, D):
        return f'Gaussian mean shape {mean.shape}'
    for idx in np.ndindex(*lead):
        for k in range(K):
            g = gamma[idx][k]
            s = float(g.sum())
            mu = (g[:, None] * y[idx]).sum(0) / s
            diff = y[idx] - mu
            if covariance_type == 'full':
                C = np.zeros((D, D))
                if diff.shape[0] <= 20000:
                    for n in range(diff.shape[0]):
                        C += g[n] * np.outer(diff[n], diff[n])
                else:
                    # very long signals: the same sum, blockwise in float64
                    for i in range(D):
                        for j in range(D):
                            C[i, j] = float(np.sum(g * diff[:, i] * diff[:, j]))
                C /= s
            elif covariance_type == 'diagonal':
                C = (g[:, None] * diff ** 2).sum(0) / s
            else:
                C = float((g[:, None] * diff ** 2).sum() / (s * D))
            r = _rel(mean[idx + (k,)], mu) if np.max(np.abs(mu)) > 1e-6 else \
                float(np.max(np.abs(mean[idx + (k,)] - mu)))
            if not r <= TOL:
                return f'Gaussian mean of class {k} at {idx} differs from the ' \
                       f'weighted sample mean by {r:.3e}'
            ci = cov[idx + (k,)]
            if np.shape(ci) != np.shape(C):
                return f'Gaussian covariance shape {np.shape(ci)} vs {np.shape(C)}'
            r = _rel(ci, C)
            note('gaussian_covariance', r, TOL)
            if not r <= TOL:
                return f'Gaussian {covariance_type} covariance of class {k} at ' \
                       f'{idx} differs from the pooled weighted scatter by {r:.3e}'
    return None


# --------------------------------------------------------------------------
# complex Bingham
# --------------------------------------------------------------------------

def bingham_grad_log_norm(lam, prec=80):
    """d log c / d lambda_j for c(lambda) = 2 pi^D sum_j a_j exp(lambda_j),
    a_j = prod_{i != j} 1/(lambda_j - lambda_i), in high-precision decimal
    arithmetic (the closed form cancels catastrophically in float64)."""
    ctx = decimal.getcontext().copy()
    ctx.prec = prec
    L = [ctx.create_decimal(repr(float(x))) for x in lam]
    D = len(L)
    one = decimal.Decimal(1)
    a = []
    for j in range(D):
        p = one
        for i in range(D):
            if i != j:
                p = ctx.multiply(p, ctx.subtract(L[j], L[i]))
        a.append(ctx.divide(one, p))
    e = [ctx.exp(x) for x in L]
    c = sum((ctx.multiply(a[j], e[j]) for j in range(D)), decimal.Decimal(0))
    grad = []
    for j in range(D):
        t = one
        for m in range(D):
            if m != j:
                t = ctx.subtract(t, ctx.divide(one, ctx.subtract(L[j], L[m])))
        g = ctx.multiply(ctx.multiply(a[j], e[j]), t)
        for i in range(D):
            if i != j:
                g = ctx.add(g, ctx.divide(ctx.multiply(a[i], e[i]),
                                          ctx.subtract(L[i], L[j])))
        grad.append(float(ctx.divide(g, c)))
    return np.array(grad)


def check_bingham(bing, z, gamma, max_concentration=np.inf, resid_tol=1e-3,
                  stats=None):
    lead = gamma.shape[:-2]
    K = gamma.shape[-2]
    D = z.shape[-1]
    V = np.asarray(bing.covariance_eigenvectors)
    lam = np.asarray(bing.covariance_eigenvalues)
    if V.shape != lead + (K, D, D) or lam.shape != lead + (K, D):
        return f'Bingham parameter shapes {V.shape}, {lam.shape}'
    for idx in np.ndindex(*lead):
        for k in range(K):
            g = gamma[idx][k]
            S = np.zeros((D, D), dtype=complex)
            for n in range(z.shape[-2]):
                S += g[n] * np.outer(z[idx][n], z[idx][n].conj())
            S /= g.sum()
            S = (S + S.conj().T) / 2
            Vk = V[idx + (k,)]
            lk = lam[idx + (k,)].real
            u = float(np.max(np.abs(Vk.conj().T @ Vk - np.eye(D))))
            if not u <= 1e-8:
                return f'Bingham eigenvectors of class {k} at {idx} are not unitary ({u:.3e})'
            M = Vk.conj().T @ S @ Vk
            off = float(np.max(np.abs(M - np.diag(np.diag(M)))))
            if not off <= 1e-8:
                return f'Bingham eigenvectors of class {k} at {idx} do not ' \
                       f'diagonalise the weighted scatter (off-diagonal {off:.3e})'
            s_eig = np.diag(M).real
            if not (abs(lk.max()) <= 1e-6 and np.all(lk <= 1e-6)):
                return f'Bingham eigenvalues of class {k} at {idx} do not have maximum 0: {lk}'
            if np.isfinite(max_concentration):
                if np.any(lk < -max_concentration - 1e-6):
                    return f'Bingham eigenvalue below -max_concentration: {lk}'
                if np.any(lk <= -max_concentration + 1e-3):
                    continue      # clipped: stationarity not demanded
            gaps = np.abs(lk[:, None] - lk[None, :])[~np.eye(D, dtype=bool)]
            if gaps.min() < 1e-7:
                continue          # duplicate-eigenvalue guard of the solver
            if s_eig.min() < 3e-3:
                # strongly concentrated class: the maximum-likelihood
                # eigenvalues are about -1/s.  A rank-deficient scatter
                # (s ~ 0: fewer effective frames than dimensions) has no
                # finite solution and is not judged.  Otherwise the same
                # absolute residual as elsewhere is demanded (the solver stops
                # on an absolute criterion: relative to the small scatter
                # eigenvalues the unchanged tree is off by up to 400 %, which
                # a first version of this branch wrongly flagged); this still
                # sees a parameter that is held back by hundreds.
                if s_eig.min() < 1e-7 or not np.all(np.isfinite(lk)):
                    if stats is not None:
                        stats('probe:bingham_scatter_rank_deficient')
                    continue
                grad = bingham_grad_log_norm(lk)
                r = float(np.max(np.abs(grad - s_eig)))
                note('bingham_stationarity_concentrated', r, resid_tol)
                if stats is not None:
                    stats('probe:bingham_concentrated_class_judged')
                if not r <= resid_tol:
                    return f'Bingham eigenvalues {lk} of class {k} at {idx} do ' \
                           f'not solve grad log c(lambda) = scatter eigenvalues ' \
                           f'{s_eig} (residual {r:.3e}, concentrated class)'
                continue
            grad = bingham_grad_log_norm(lk)
            r = float(np.max(np.abs(grad - s_eig)))
            s_gap = float(np.min(np.diff(np.sort(s_eig))))
            if s_gap < 1e-2:
                # near-duplicate scatter eigenvalues: a separate violation
                # class (known finding: the solver is inaccurate there)
                if stats is not None:
                    stats('probe:bingham_near_duplicate_scatter')
                if not r <= resid_tol:
                    return f'NEARDUP: Bingham eigenvalues of class {k} at {idx} do ' \
                           f'not solve grad log c(lambda) = scatter eigenvalues ' \
                           f'(residual {r:.3e}) for near-duplicate scatter ' \
                           f'eigenvalues (gap {s_gap:.2e})'
                continue
            note('bingham_stationarity', r, resid_tol)
            if not r <= resid_tol:
                return f'Bingham eigenvalues of class {k} at {idx} do not solve ' \
                       f'grad log c(lambda) = scatter eigenvalues (residual {r:.3e})'
    return None


# --------------------------------------------------------------------------
# permutations (inline alignment)
# --------------------------------------------------------------------------

def find_common_permutation(expected_aff, got_aff, expected_qf=None,
                            got_qf=None, atol=1e-10, rtol=1e-9, q_tol=None):
    """For every leading (frequency) index find ONE permutation of the class
    axis that maps ``expected`` onto ``got`` for the affiliation and -- the
    same one -- for the quadratic form.  Returns (None, perms) or (message,
    None)."""
    F, K, _ = expected_aff.shape
    perms = []
    identity = True
    for f in range(F):
        found = None
        aff_only = None
        for p in itertools.permutations(range(K)):
            p = list(p)
            if np.max(np.abs(expected_aff[f][p] - got_aff[f])) <= atol:
                aff_only = p
                if expected_qf is None or np.all(
                        np.abs(expected_qf[f][p] - got_qf[f])
                        <= (rtol * np.abs(expected_qf[f][p]) + 1e-300
                            if q_tol is None else q_tol[f][p])):
                    found = p
                    break
        if found is None:
            if aff_only is not None:
                return (f'bin {f}: the posterior was permuted with {aff_only} '
                        f'but the quadratic form was not permuted the same way'), None
            return f'bin {f}: affiliation is not a class permutation of the Bayes posterior', None
        if found != list(range(K)):
            identity = False
        perms.append(found)
    return None, (perms, identity)
