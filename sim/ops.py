"""Operation catalogue of the C20 simulator: the public entry points of the
mixture, beamforming, masking, alignment, initializer and metric modules.

Every entry has
    gen(g)        -> JSON args (array specs, scalars, model references)
    run(ctx, a)   -> result (arrays / scalars / models / tuples)
and meta data: ``draws`` (documented to use the global RNG), ``trainer``
(kind of shared trainer object used, if any), ``dims`` (feature dimension
offered to that trainer).

``ctx`` resolves array specs (read-only arrays shared between world and
replica), model references (world pool or the replica's own chain) and
trainer / aligner objects (shared in the world, fresh in the replica).
"""
import numpy as np

from . import models

ENTRIES = {}


def guard(ctx, obj):
    """Register a caller-owned Python container (list / dict argument): it
    must be unchanged after the call (checked by c20.call)."""
    import copy
    g = getattr(ctx, 'guards', None)
    if g is not None:
        g.append((obj, copy.deepcopy(obj)))
    return obj


class Entry:
    def __init__(self, name, gen, run, draws=False, trainer=None,
                 weight=1.0, group='misc', returns_model=None):
        self.name, self.gen, self.run = name, gen, run
        self.draws, self.trainer = draws, trainer
        self.weight, self.group = weight, group
        self.returns_model = returns_model


def entry(name, **meta):
    def deco(cls):
        ENTRIES[name] = Entry(name, cls.gen, cls.run, **meta)
        return cls
    return deco


# --------------------------------------------------------------------------
# generation helper
# --------------------------------------------------------------------------

class G:
    """Draws everything from the run's private RandomState (never np.random)."""

    def __init__(self, rng, dims, thorough=False):
        self.rng = rng
        self.dims = dims
        self.thorough = thorough
        self.big = False     # set per run by the generator (rare)
        self.pool = []       # remembered array specs for deliberate re-use
        self.models = []     # (op index, kind) of model-returning ops so far

    def pick_model(self, kinds):
        cand = [i for i, k in self.models if k in kinds]
        if not cand:
            return None
        # prefer recent models
        return int(cand[-1 - int(self.rng.randint(min(3, len(cand))))])

    def choice(self, seq):
        return seq[int(self.rng.randint(len(seq)))]

    def coin(self, p=0.5):
        return bool(self.rng.uniform() < p)

    def seed(self):
        return int(self.rng.randint(2 ** 31))

    def D(self):
        return int(self.choice(self.dims))

    def K(self):
        return int(self.choice([2, 2, 3, 3, 4, 5] if self.thorough
                               else [2, 2, 3, 3, 4]))

    def F(self, odd=False):
        if self.big and self.coin(0.4):
            # with N ~ 300-1200: more than 2**16 elements; 65 / 129 bins:
            # STFT sizes 128 / 256
            return int(self.choice([33, 33, 65, 129]))
        if odd:
            return int(self.choice([1, 3, 3, 5, 7] if self.thorough else [1, 3, 3, 5]))
        return int(self.choice([1, 2, 3, 4]))

    def N(self, lo=6, hi=24):
        if self.big and self.coin(0.5):
            # a few runs use large inputs: size-dependent code paths
            return int(self.rng.randint(300, 1200))
        return int(self.rng.randint(lo, hi + 1))

    def layout(self):
        return self.choice(['C', 'C', 'C', 'F', 'neg', 'strided'])

    def arr(self, kind, shape, reuse=True, **kw):
        spec = {'kind': kind, 'shape': [int(s) for s in shape],
                'seed': self.seed(), 'layout': self.layout()}
        spec.update(kw)
        # deliberately hand the *same* array to several operations
        if reuse:
            key = (kind, tuple(spec['shape']), spec.get('dtype'))
            same = [s for s in self.pool
                    if (s['kind'], tuple(s['shape']), s.get('dtype')) == key]
            if same and self.coin(0.5):
                return self.choice(same)
            self.pool.append(spec)
        return spec

    def cdtype(self):
        # '>c16': non-native byte order (data read from a big-endian file)
        return self.choice(['complex128', 'complex128', 'complex128', 'complex64']
                           + (['>c16'] if self.coin(0.1) else []))

    def rdtype(self):
        return self.choice(['float64', 'float64', 'float64', 'float32']
                           + (['>f8'] if self.coin(0.1) else []))


def _lead(F):
    return [F] if F > 0 else []


# --------------------------------------------------------------------------
# mixture trainers
# --------------------------------------------------------------------------

def gen_mm_fit(g, kind, method=None, D=None, iterations=None):
    a = _gen_mm_fit(g, kind, method, D, iterations)
    # streams of equally shaped problems (utterance after utterance) are the
    # normal way a trainer object is re-used: repeat an earlier shape with
    # other data
    tmpl = getattr(g, 'shape_templates', None)
    if tmpl is None:
        tmpl = g.shape_templates = {}
    if kind in tmpl and g.coin(0.4) and D is None:
        b = _reseed(g, tmpl[kind])
        b['method'] = a['method']
        b['iterations'] = a['iterations']
        return b
    tmpl[kind] = a
    return a


def _reseed(g, a):
    import copy
    b = copy.deepcopy(a)
    for k, v in b.items():
        if isinstance(v, dict) and 'seed' in v and 'kind' in v and 'shape' in v:
            v['seed'] = g.seed()
    return b


def _gen_mm_fit(g, kind, method=None, D=None, iterations=None):
    K = g.K()
    D = D or g.D()
    opts = {}
    integration = kind in models.INTEGRATION
    aligner = None
    if integration:
        F = int(g.choice([1, 2, 3]))
    elif kind in ('cacgmm', 'cwmm', 'cbmm', 'gmm', 'vmfmm'):
        F = int(g.choice([0, 1, 2, 3]))
    if kind == 'cbmm':
        D = min(D, 3)
        K = 2
    N = g.N(max(D + 2, 6), 20 if kind != 'cbmm' else 10)
    if kind in ('cacgmm', 'cwmm', 'vmfmm') and g.coin(0.05):
        N = int(g.rng.randint(2, D + 1))     # fewer frames than channels
    E = int(g.choice([2, 3, 4]))
    lead = _lead(F)
    a = {'kind': kind, 'K': K, 'D': D}
    # inline permutation aligner needs (F, K, T), odd F, weights tied over F
    if kind in ('cacgmm', 'cwmm', 'cbmm') and g.coin(0.2):
        F = int(g.choice([3, 5]))
        lead = [F]
        aligner = gen_aligner(g, K, F, oracle=False)
        opts['weight_constant_axis'] = g.choice([[-3], [-3, -1]])
    elif integration:
        opts['weight_constant_axis'] = list(g.choice(
            [(-1,), (-1,), (-3,), (-3, -1), (-3, -2, -1)]))
    elif F > 0:
        opts['weight_constant_axis'] = g.choice(
            [[-1], [-1], [-3], [-3, -1], -2, [-2]])
    else:
        opts['weight_constant_axis'] = g.choice([[-1], [-1], -2])
    if kind == 'cwmm' and g.coin(0.2):
        # strongly directional data: concentrations up to the clipping bound
        a['obs'] = g.arr('cconcentrated', lead + [N, D],
                         noise=float(g.choice([0.2, 0.03, 0.01])))
    elif kind in models.COMPLEX_OBS:
        a['obs'] = g.arr('cnormal', lead + [N, D], dtype=g.cdtype())
    elif kind == 'vmfmm':
        a['obs'] = g.arr('normal', lead + [N, D], dtype='float64')
    else:
        a['obs'] = g.arr('rclusters', lead + [N, D], K=K)
    if integration:
        a['emb'] = g.arr('normal', lead + [N, E], dtype='float64')
    start = g.choice(['array', 'array', 'num_classes'])
    if start == 'array':
        ishape = lead + [K, N]
        if lead and kind in ('cacgmm',) and aligner is None and g.coin(0.2):
            ishape = [1, K, N]   # singleton leading axis is broadcast
        a['init'] = g.arr(g.choice(['affiliation', 'affiliation',
                                    'affiliation_onehotish', 'onehot']),
                          ishape)
    else:
        a['num_classes'] = K
    if g.coin(0.35):
        sk = g.choice(['uniform', 'integers', 'uniform_zeros', 'uniform'])
        hi = 3 if sk != 'uniform' else g.choice([3, 3, 1e-2, 1e-4])
        a['saliency'] = g.arr(sk, lead + [N], low=hi / 3 if sk == 'uniform' else 1,
                              high=hi)
    if kind == 'cacgmm':
        if g.coin(0.5):
            opts['covariance_norm'] = g.choice(['eigenvalue', 'trace', False])
        if g.coin(0.3):
            opts['affiliation_eps'] = g.choice([0.0, 1e-10, 1e-3])
        if g.coin(0.2):
            opts['hermitize'] = False
        if g.coin(0.2):
            opts['eigenvalue_floor'] = g.choice([1e-10, 1e-6, 0.01])
        if start == 'array' and g.coin(0.25) and a['init']['shape'] == lead + [K, N]:
            a['sam'] = g.arr('activity', lead + [K, N], reuse=False,
                             class_off=g.coin(0.4), silent_frames=g.coin(0.3))
    if kind in ('gmm', 'gcacgmm'):
        ct = g.choice(['full', 'diagonal', 'spherical'])
        if kind == 'gmm' and F > 0:
            ct = 'full'
        if kind == 'gcacgmm' or g.coin(0.7):
            opts['covariance_type'] = ct
        if g.coin(0.25):
            # a caller-owned covariance handed to every M-step
            ctype = opts.get('covariance_type',
                             'full' if kind == 'gmm' else 'spherical')
            Dg = E if kind == 'gcacgmm' else D
            glead = lead if kind == 'gmm' else []
            if ctype == 'full':
                a['fixed_covariance'] = g.arr('spd', glead + [K, Dg, Dg], load=0.3)
            elif ctype == 'diagonal':
                a['fixed_covariance'] = g.arr('uniform', glead + [K, Dg],
                                              low=0.3, high=2.0)
            else:
                a['fixed_covariance'] = g.arr('uniform', glead + [K],
                                              low=0.3, high=2.0)
    if integration:
        if g.coin(0.3):
            opts['inline_permutation_alignment'] = True
        if g.coin(0.3):
            opts['spatial_weight'] = float(g.choice([0.5, 1.0, 2.0]))
            opts['spectral_weight'] = float(g.choice([0.5, 1.0, 2.0]))
        if g.coin(0.3):
            opts['covariance_norm'] = g.choice(['eigenvalue', 'trace', False])
        if g.coin(0.2):
            opts['affiliation_eps'] = g.choice([0.0, 1e-10])
    if kind in ('vmfmm', 'vmfcacgmm') and g.coin(0.3):
        opts['max_concentration'] = float(g.choice([50, 500]))
    if kind == 'cbmm' and g.coin(0.3):
        opts['affiliation_eps'] = g.choice([0, 1e-10])
    a['opts'] = opts
    if kind in ('cacgmm', 'cwmm', 'cbmm', 'gmm', 'vmfmm') and g.coin(0.2) \
            and isinstance(opts['weight_constant_axis'], list):
        a['wca_as_list'] = True
        a['wca_nonneg'] = g.coin(0.5)
    if aligner is not None:
        a['aligner'] = aligner
    if iterations is None:
        iterations = int(g.choice([1, 1, 2, 3, 5])) if kind != 'cbmm' \
            else int(g.choice([1, 1, 2]))
    a['iterations'] = iterations
    a['method'] = method or g.choice(['fit', 'fit', 'fit_predict'])
    return a


def run_mm_fit(ctx, a, initialization=None, iterations=None):
    kind = a['kind']
    trainer = ctx.trainer(kind, a.get('trainer_kwargs'), dim=a['D'])
    obs = ctx.arr(a['obs'])
    emb = ctx.arr(a['emb']) if 'emb' in a else None
    init = initialization
    if init is None and 'init' in a:
        init = ctx.arr(a['init'])
    extra = {}
    if 'sam' in a:
        extra['source_activity_mask'] = ctx.arr(a['sam'])
    if 'aligner' in a:
        extra['inline_permutation_aligner'] = ctx.aligner(a['aligner'])
    if 'fixed_covariance' in a:
        extra['fixed_covariance'] = ctx.arr(a['fixed_covariance'])
    sal = ctx.arr(a['saliency']) if 'saliency' in a else None
    wca = a['opts'].get('weight_constant_axis')
    if a.get('wca_as_list') and isinstance(wca, list):
        # a list (possibly with non-negative axes) is accepted as well
        nd = len(a['obs']['shape'])
        lst = [x % nd if a.get('wca_nonneg') else x for x in wca]
        extra['weight_constant_axis'] = guard(ctx, lst)
    return models.call_fit(
        kind, trainer, obs, emb, init,
        iterations or a['iterations'], a['opts'], saliency=sal,
        num_classes=a.get('num_classes'), method=a.get('method', 'fit'),
        extra=extra)


def _register_mm(kind, weight):
    class _E:
        @staticmethod
        def gen(g):
            return gen_mm_fit(g, kind)

        @staticmethod
        def run(ctx, a):
            return run_mm_fit(ctx, a)
    ENTRIES[f'{kind}.fit'] = Entry(
        f'{kind}.fit', _E.gen, _E.run, draws='num_classes', trainer=kind,
        weight=weight, group='mixture', returns_model=kind)


for _k, _w in (('cacgmm', 5), ('cwmm', 5), ('cbmm', 1.0), ('gmm', 3),
               ('vmfmm', 3), ('gcacgmm', 3), ('vmfcacgmm', 3)):
    _register_mm(_k, _w)


@entry('cacgmm.continue', trainer='cacgmm', weight=2, group='mixture',
       returns_model='cacgmm')
class _CacgmmContinue:
    """fit(initialization=<CACGMM>) -- generic continuation from a pool model
    (split / restart jobs with the O4 oracle are generated separately)."""
    @staticmethod
    def gen(g):
        ref = g.pick_model(['cacgmm'])
        if ref is None:
            return None
        a = {'model': ref, 'iterations': int(g.choice([1, 2, 3]))}
        if g.coin(0.5):
            # continue under other options than the model was produced with
            ov = {}
            if g.coin(0.6):
                ov['eigenvalue_floor'] = g.choice([1e-10, 1e-6, 1e-2, 0.1])
            if g.coin(0.3):
                ov['covariance_norm'] = g.choice(['eigenvalue', 'trace', False])
            if g.coin(0.3):
                ov['affiliation_eps'] = g.choice([0.0, 1e-10, 1e-3])
            if g.coin(0.2):
                ov['hermitize'] = g.coin()
            a['override'] = ov
        return a

    @staticmethod
    def run(ctx, a):
        m = ctx.model(a['model'])
        src = m.origin
        trainer = ctx.trainer('cacgmm', None, dim=src['D'])
        extra = {}
        if 'sam' in src:
            extra['source_activity_mask'] = ctx.arr(src['sam'])
        if 'aligner' in src:
            extra['inline_permutation_aligner'] = ctx.aligner(src['aligner'])
        sal = ctx.arr(src['saliency']) if 'saliency' in src else None
        opts = dict(src['opts'], **a.get('override', {}))
        return models.call_fit('cacgmm', trainer, ctx.arr(src['obs']), None,
                               m.value, a['iterations'], opts,
                               saliency=sal, extra=extra)


@entry('model.predict', weight=5, group='mixture')
class _ModelPredict:
    @staticmethod
    def gen(g):
        ref = g.pick_model(list(models.MIXTURES))
        if ref is None:
            return None
        return {'model': ref, 'variant': int(g.rng.randint(3)),
                'other_data': g.coin(0.3), 'seed': g.seed()}

    @staticmethod
    def run(ctx, a):
        m = ctx.model(a['model'])
        src, kind = m.origin, m.kind
        obs_spec = dict(src['obs'])
        if a['other_data']:
            obs_spec['seed'] = a['seed']
        obs = ctx.arr(obs_spec)
        if kind in models.INTEGRATION:
            return m.value.predict(obs, ctx.arr(src['emb']))
        if kind == 'cacgmm':
            if a['variant'] == 1:
                return m.value.predict(obs, return_quadratic_form=True)
            if a['variant'] == 2 and 'sam' in src and not a['other_data']:
                return m.value.predict(
                    obs, source_activity_mask=ctx.arr(src['sam']))
        if kind == 'cbmm' and a['variant'] == 1:
            return m.value.predict(obs, affiliation_eps=1e-10)
        return m.value.predict(obs)


@entry('model.log_likelihood', weight=2, group='mixture')
class _ModelLL:
    @staticmethod
    def gen(g):
        ref = g.pick_model(['cacgmm'])
        return None if ref is None else {'model': ref}

    @staticmethod
    def run(ctx, a):
        m = ctx.model(a['model'])
        return m.value.log_likelihood(ctx.arr(m.origin['obs']))


@entry('model.component_log_pdf', weight=2, group='mixture')
class _ModelLogPdf:
    @staticmethod
    def gen(g):
        ref = g.pick_model(list(models.MIXTURES))
        return None if ref is None else {'model': ref}

    @staticmethod
    def run(ctx, a):
        m = ctx.model(a['model'])
        src = m.origin
        return models.component_log_pdf(
            m.kind, m.value, ctx.arr(src['obs']),
            ctx.arr(src['emb']) if 'emb' in src else None)


@entry('model.to_from_dict', weight=1, group='mixture')
class _ModelDict:
    @staticmethod
    def gen(g):
        ref = g.pick_model(list(models.MIXTURES))
        return None if ref is None else {'model': ref}

    @staticmethod
    def run(ctx, a):
        m = ctx.model(a['model'])
        d = m.value.to_dict()
        comp = {'cacgmm': 'cacg', 'gcacgmm': 'cacg', 'vmfcacgmm': 'cacg'}.get(m.kind)
        out = [d]
        if comp:
            c = getattr(m.value, comp)
            out.append(type(c).from_dict(c.to_dict()))
            out.append(c.covariance)
            out.append(c.log_determinant)
        return out


# --------------------------------------------------------------------------
# single-distribution trainers and distributions
# --------------------------------------------------------------------------

DIST = ('gaussian', 'ccsg', 'vmf', 'watson', 'bingham', 'cacg')


def dist_trainer_class(kind):
    from pb_bss import distribution as d
    return {
        'gaussian': d.GaussianTrainer,
        'ccsg': d.ComplexCircularSymmetricGaussianTrainer,
        'vmf': d.VonMisesFisherTrainer,
        'watson': d.ComplexWatsonTrainer,
        'cacg': d.ComplexAngularCentralGaussianTrainer,
        'bingham': __import__('pb_bss.distribution.complex_bingham',
                              fromlist=['x']).ComplexBinghamTrainer,
    }[kind]


def gen_dist_fit(g, kind, D=None):
    D = D or g.D()
    if kind == 'bingham':
        D = min(D, 3)
    N = g.N(D + 3, 20)
    lead = _lead(int(g.choice([0, 0, 1, 2]))) if kind != 'bingham' else []
    if kind == 'cacg' and g.coin(0.85):
        lead = []    # fit() raises TypeError for any leading axis
    a = {'kind': kind, 'D': D, 'opts': {}}
    if kind == 'watson' and g.coin(0.25):
        a['y'] = g.arr('cconcentrated', lead + [N, D],
                       noise=float(g.choice([0.2, 0.03, 0.01])))
    elif kind in ('ccsg', 'watson', 'bingham', 'cacg'):
        a['y'] = g.arr('cnormal', lead + [N, D], dtype=g.cdtype())
    else:
        a['y'] = g.arr('normal', lead + [N, D], dtype=g.rdtype())
    if kind != 'cacg' and g.coin(0.5):
        sc = g.choice([1.0, 1.0, 1e-2, 1e-4])
        a['saliency'] = g.arr('uniform', lead + [N], low=0.1 * sc, high=2.0 * sc)
    if kind == 'gaussian':
        a['opts']['covariance_type'] = g.choice(['full', 'diagonal', 'spherical'])
    if kind == 'vmf' and g.coin(0.3):
        a['opts']['max_concentration'] = 50.0
    if kind == 'cacg':
        a['opts']['iterations'] = int(g.choice([1, 2, 4]))
        if g.coin(0.4):
            a['opts']['covariance_norm'] = g.choice(['eigenvalue', 'trace', False])
        if g.coin(0.2):
            a['opts']['hermitize'] = False
    return a


def run_dist_fit(ctx, a):
    kind = a['kind']
    trainer = ctx.trainer('dist:' + kind, a.get('trainer_kwargs'), dim=a['D'])
    y = ctx.arr(a['y'])
    kw = dict(a['opts'])
    if 'saliency' in a:
        kw['saliency'] = ctx.arr(a['saliency'])
    return trainer.fit(y, **kw)


def _register_dist(kind, weight):
    class _E:
        @staticmethod
        def gen(g):
            return gen_dist_fit(g, kind)

        @staticmethod
        def run(ctx, a):
            return run_dist_fit(ctx, a)
    ENTRIES[f'{kind}.fit'] = Entry(
        f'{kind}.fit', _E.gen, _E.run, trainer='dist:' + kind, weight=weight,
        group='distribution', returns_model='dist:' + kind)


for _k, _w in (('gaussian', 2), ('ccsg', 1), ('vmf', 2), ('watson', 4),
               ('bingham', 0.7), ('cacg', 2)):
    _register_dist(_k, _w)


@entry('dist.log_pdf', weight=3, group='distribution')
class _DistLogPdf:
    @staticmethod
    def gen(g):
        ref = g.pick_model(['dist:' + k for k in DIST])
        if ref is None:
            return None
        return {'model': ref, 'seed': g.seed(), 'other_data': g.coin(0.5)}

    @staticmethod
    def run(ctx, a):
        m = ctx.model(a['model'])
        spec = dict(m.origin['y'])
        if a['other_data']:
            spec['seed'] = a['seed']
        return m.value.log_pdf(ctx.arr(spec))


@entry('watson.direct', weight=1, group='distribution')
class _WatsonDirect:
    """A ComplexWatson model built by the caller (any concentration, also
    beyond the range the trainers produce): log_pdf / log_norm."""
    @staticmethod
    def gen(g):
        D = g.D()
        return {'mode': g.arr('cconcentrated', [1, D], noise=0.0),
                'y': g.arr('cnormal', [g.N(), D], dtype=g.cdtype()),
                'concentration': float(g.choice([0.5, 20.0, 499.0, 690.0, 720.0,
                                                 900.0])),
                'which': g.choice(['log_pdf', 'log_norm', 'pdf'])}

    @staticmethod
    def run(ctx, a):
        from pb_bss.distribution import ComplexWatson
        from pb_bss.distribution.complex_watson import normalize_observation
        m = ComplexWatson(mode=ctx.arr(a['mode'])[0],
                          concentration=a['concentration'])
        if a['which'] == 'log_norm':
            return m.log_norm()
        y = normalize_observation(ctx.arr(a['y']))
        y.setflags(write=False)
        return m.log_pdf(y) if a['which'] == 'log_pdf' else m.pdf(y)


@entry('cacg.from_covariance', weight=2, group='distribution')
class _FromCov:
    @staticmethod
    def gen(g):
        D = g.D()
        return {'cov': g.arr('hpd', _lead(int(g.choice([0, 2]))) + [D, D]),
                'norm': g.choice(['eigenvalue', 'trace', False]),
                'floor': g.choice([0.0, 1e-10, 1e-3])}

    @staticmethod
    def run(ctx, a):
        from pb_bss.distribution import ComplexAngularCentralGaussian
        return ComplexAngularCentralGaussian.from_covariance(
            ctx.arr(a['cov']), eigenvalue_floor=a['floor'],
            covariance_norm=a['norm'])


@entry('cacg.sample', draws=True, weight=1, group='distribution')
class _CacgSample:
    @staticmethod
    def gen(g):
        D = g.D()
        return {'cov': g.arr('hpd', [D, D]), 'size': [int(g.choice([1, 5, 9]))],
                'which': g.choice(['cacg', 'ccsg', 'cacgmm'])}

    @staticmethod
    def run(ctx, a):
        from pb_bss import distribution as d
        cov = ctx.arr(a['cov'])
        if a['which'] == 'cacg':
            return d.ComplexAngularCentralGaussian.from_covariance(cov).sample(
                tuple(a['size']))
        if a['which'] == 'ccsg':
            return d.ComplexCircularSymmetricGaussian(covariance=cov).sample(
                tuple(a['size']))
        covs = np.stack([cov, cov * 0.5 + np.eye(cov.shape[-1])])
        covs.setflags(write=False)
        w = np.array([0.3, 0.7])
        w.setflags(write=False)
        return d.sample_cacgmm(a['size'][0], w, covs, return_label=True)


@entry('normalize_observation', weight=1, group='distribution')
class _NormObs:
    @staticmethod
    def gen(g):
        return {'y': g.arr('cnormal', [g.N(), g.D()], dtype=g.cdtype()),
                'which': g.choice(['cacg', 'watson', 'bingham'])}

    @staticmethod
    def run(ctx, a):
        if a['which'] == 'cacg':
            from pb_bss.distribution.cacgmm import normalize_observation as f
        elif a['which'] == 'watson':
            from pb_bss.distribution.complex_watson import normalize_observation as f
        else:
            from pb_bss.distribution.complex_bingham import normalize_observation as f
        return f(ctx.arr(a['y']))


# --------------------------------------------------------------------------
# mixture_model_utils / distribution.utils
# --------------------------------------------------------------------------

@entry('mmu.log_pdf_to_affiliation', weight=2, group='mmutils')
class _Lp2Aff:
    @staticmethod
    def gen(g):
        K, N, F = g.K(), g.N(), int(g.choice([1, 3]))
        a = {'w': g.arr('affiliation', [F, K, 1]),
             'lp': g.arr('normal', [F, K, N]),
             'eps': g.choice([0.0, 1e-10, 1e-3])}
        if g.coin(0.4):
            a['sam'] = g.arr('activity', [F, K, N], reuse=False,
                             silent_frames=g.coin(0.4))
        a['inline'] = g.coin(0.3)
        if a['inline']:
            a['lp2'] = g.arr('normal', [F, K, N])
        return a

    @staticmethod
    def run(ctx, a):
        from pb_bss.distribution import mixture_model_utils as u
        sam = ctx.arr(a['sam']) if 'sam' in a else None
        if a['inline']:
            return u.log_pdf_to_affiliation_for_integration_models_with_inline_pa(
                ctx.arr(a['w']), ctx.arr(a['lp']), ctx.arr(a['lp2']),
                source_activity_mask=sam, affiliation_eps=a['eps'])
        return u.log_pdf_to_affiliation(
            ctx.arr(a['w']), ctx.arr(a['lp']), source_activity_mask=sam,
            affiliation_eps=a['eps'])


@entry('mmu.estimate_mixture_weight', weight=2, group='mmutils')
class _EstW:
    @staticmethod
    def gen(g):
        K, N, F = g.K(), g.N(), int(g.choice([1, 3]))
        a = {'aff': g.arr('affiliation', [F, K, N]),
             'wca': g.choice([-1, [-1], [-3], [-3, -1], -2, [-1, -3]]),
             'wca_as_list': g.coin(0.3)}
        if g.coin(0.5):
            a['saliency'] = g.arr('uniform', [F, N], low=0.0, high=2.0)
        return a

    @staticmethod
    def run(ctx, a):
        from pb_bss.distribution import mixture_model_utils as u
        return u.estimate_mixture_weight(
            ctx.arr(a['aff']),
            saliency=ctx.arr(a['saliency']) if 'saliency' in a else None,
            weight_constant_axis=a['wca'] if isinstance(a['wca'], int)
            else (list(a['wca']) if a.get('wca_as_list') else tuple(a['wca'])))


@entry('mmu.apply_inline_permutation_alignment', weight=2, group='mmutils')
class _ApplyInline:
    @staticmethod
    def gen(g):
        K, N, F = g.K(), g.N(), int(g.choice([3, 5]))
        a = {'aff': g.arr('affiliation', [F, K, N]),
             'aligner': gen_aligner(g, K, F, oracle=False),
             'wca': g.choice([[-3], [-3, -1], -3])}
        if g.coin(0.5):
            a['qf'] = g.arr('uniform', [F, K, N], low=0.1, high=3.0)
        return a

    @staticmethod
    def run(ctx, a):
        from pb_bss.distribution import mixture_model_utils as u
        return u.apply_inline_permutation_alignment(
            ctx.arr(a['aff']),
            quadratic_form=ctx.arr(a['qf']) if 'qf' in a else None,
            weight_constant_axis=a['wca'] if isinstance(a['wca'], int)
            else tuple(a['wca']),
            aligner=ctx.aligner(a['aligner']))


@entry('dutils.misc', weight=1, group='mmutils')
class _DUtils:
    @staticmethod
    def gen(g):
        D = g.D()
        return {'m': g.arr('cnormal', [2, D, D]),
                'v': g.arr('cnormal', [g.N(), D], dtype=g.cdtype()),
                'which': g.choice(['force_hermitian', 'unit_norm_plus',
                                   'unit_norm_where', 'unit_norm_max',
                                   'phase_norm', 'stack'])}

    @staticmethod
    def run(ctx, a):
        from pb_bss.distribution import utils as u
        from pb_bss import distribution as d
        w = a['which']
        if w == 'force_hermitian':
            return u.force_hermitian(ctx.arr(a['m']))
        if w == 'phase_norm':
            return u._phase_norm(ctx.arr(a['v']))
        if w == 'stack':
            c = ctx.arr(a['m'])
            h = c @ np.swapaxes(c.conj(), -1, -2) + np.eye(c.shape[-1])
            h.setflags(write=False)
            m1 = d.ComplexAngularCentralGaussian.from_covariance(h[0])
            m2 = d.ComplexAngularCentralGaussian.from_covariance(h[1])
            return u.stack_parameters([m1, m2])
        style = w.split('_')[-1]
        return u._unit_norm(ctx.arr(a['v']), eps_style=style,
                            ord=None, axis=-1)


# --------------------------------------------------------------------------
# initializers
# --------------------------------------------------------------------------

@entry('initializer.iid', draws=True, weight=2, group='initializer')
class _InitIid:
    @staticmethod
    def gen(g):
        return {'y': g.arr('cnormal', _lead(int(g.choice([0, 2, 3]))) + [g.N(), g.D()]),
                'K': g.K(), 'pf': g.coin(),
                'which': g.choice(['uniform_normalized', 'dirichlet_uniform',
                                   'dirichlet', 'one_hot']),
                'alpha': float(g.choice([0.5, 1, 3, 0.05, 0.01]))}

    @staticmethod
    def run(ctx, a):
        from pb_bss.initializer import iid
        f = getattr(iid, a['which'])
        kw = {'alpha': a['alpha']} if a['which'] == 'dirichlet' else {}
        return f(ctx.arr(a['y']), a['K'], permutation_free=a['pf'], **kw)


@entry('initializer.flag', weight=1, group='initializer')
class _InitFlag:
    @staticmethod
    def gen(g):
        K = g.K()
        return {'y': g.arr('cnormal', _lead(int(g.choice([0, 2]))) + [g.N(), g.D()]),
                'K': K, 'minimum': float(g.choice([0, 0.01, 0.5 / K]))}

    @staticmethod
    def run(ctx, a):
        from pb_bss.initializer import deterministic
        return deterministic.flag(ctx.arr(a['y']), a['K'], permutation_free=True,
                                  minimum=a['minimum'])


@entry('initializer.deflation', weight=0.3, group='initializer')
class _InitDeflation:
    @staticmethod
    def gen(g):
        T, D = 12, int(g.choice([2, 3]))
        a = {'y': g.arr('cnormal', [257, T, D]), 'K': g.K(),
             'pf': g.coin(), 'eps': float(g.choice([0, 1e-3]))}
        if g.coin(0.4):
            a['sal'] = g.arr('uniform', [257, T], low=0.1, high=1.0)
        if g.coin(0.4):
            # a caller-supplied similarity transform handing back an array
            # the caller owns (values partly outside [0, 1])
            a['transform'] = g.arr('uniform', [257, T], low=0.0, high=1.3)
        return a

    @staticmethod
    def run(ctx, a):
        from pb_bss.initializer import deflation
        transform = None
        if 'transform' in a:
            own = ctx.arr(a['transform'])
            transform = lambda similarity, saliencies: own   # noqa
        return deflation.deflationSeed(
            ctx.arr(a['y']), a['K'],
            saliencies=ctx.arr(a['sal']) if 'sal' in a else None,
            permutation_free=a['pf'], eps=a['eps'],
            similarity_transform=transform)


# --------------------------------------------------------------------------
# beamforming
# --------------------------------------------------------------------------

@entry('bf.psd', weight=4, group='beamformer')
class _Psd:
    @staticmethod
    def gen(g):
        F, D, T, K = g.F(), g.D(), g.N(), g.K()
        v = g.choice(['nomask', 'mask_ft', 'mask_fkt', 'mask_kft',
                      'sensor_last', 'nonorm', 'time_first'])
        a = {'variant': v}
        okind = 'cnormal' if g.coin(0.85) else 'normal'   # real input is valid
        dt = g.cdtype() if okind == 'cnormal' else g.rdtype()
        if v == 'sensor_last':
            a['x'] = g.arr(okind, [F, T, D], dtype=dt)
        elif v == 'time_first':
            a['x'] = g.arr(okind, [T, F, D], dtype=dt)
        else:
            a['x'] = g.arr(okind, [F, D, T], dtype=dt)
        if v in ('mask_ft', 'nonorm'):
            if g.coin(0.2):
                a['mask'] = g.arr('bool', [F, T], p=0.6, some_true=True)   # binary mask
            else:
                a['mask'] = g.arr('uniform', [F, T], dtype=g.rdtype())
        elif v == 'mask_fkt':
            a['mask'] = g.arr('affiliation', [F, K, T])
        elif v == 'mask_kft':
            a['mask'] = g.arr('uniform', [K, F, T])
        elif v == 'sensor_last' and g.coin():
            a['mask'] = g.arr('affiliation', [F, K, T])
        return a

    @staticmethod
    def run(ctx, a):
        from pb_bss.extraction import get_power_spectral_density_matrix as f
        x = ctx.arr(a['x'])
        m = ctx.arr(a['mask']) if 'mask' in a else None
        v = a['variant']
        if v == 'sensor_last':
            return f(x, m, sensor_dim=-1, time_dim=-2) if m is None \
                else f(x.transpose(0, 2, 1), m)
        if v == 'time_first':
            return f(x, None, sensor_dim=-1, time_dim=0)
        if v == 'mask_kft':
            return f(x, m, source_dim=0)
        if v == 'nonorm':
            return f(x, m, normalize=False)
        return f(x, m)


def _psd_pair(g, lead=None, K=None):
    D = g.D()
    F = g.F()
    lead = [F] if lead is None else lead
    if K:
        lead = [K] + lead
    return D, F, {
        'target': g.arr(g.choice(['hpd', 'hpd', 'hrank1', 'hsingular']),
                        lead + [D, D]),
        'noise': g.arr(g.choice(['hpd', 'hpd', 'hpd', 'hpd', 'hsingular']),
                       lead + [D, D]),
    }


BF_NAMES = [
    'pca', 'pca+ban', 'pca+mvdr', 'pca+mvdr+ban', 'scaled_gev_atf+mvdr',
    'scaled_gev_atf+mvdr+ban', 'mvdr_souden', 'mvdr_souden+ban',
    'rank1_pca+mvdr_souden', 'rank1_pca+mvdr_souden+ban',
    'rank1_gev+mvdr_souden', 'rank1_gev+mvdr_souden+ban', 'gev', 'gev+ban',
    'rank1_pca+gev', 'rank1_pca+gev+ban', 'rank1_gev+gev', 'rank1_gev+gev+ban',
    'wmwf', 'wmwf+ban', 'rank1_pca+wmwf', 'rank1_pca+wmwf+ban',
    'rank1_gev+wmwf', 'rank1_gev+wmwf+ban', 'ch0', 'ch1',
]


@entry('bf.get_bf_vector', weight=6, group='beamformer')
class _GetBf:
    @staticmethod
    def gen(g):
        D, F, a = _psd_pair(g)
        a['name'] = g.choice(BF_NAMES)
        a['kw'] = {}
        core = a['name'].replace('+ban', '')
        if core.endswith('mvdr_souden') and g.coin(0.4):
            a['kw']['ref_channel'] = int(g.rng.randint(D))
        if core.endswith('wmwf'):
            if g.coin(0.4):
                a['kw']['reference_channel'] = int(g.rng.randint(D))
            if g.coin(0.4):
                a['kw']['distortion_weight'] = g.choice([0.0, 0.5, 3.0, 'frequency_dependent'])
        if core == 'pca' and g.coin(0.4):
            a['kw']['scaling'] = g.choice(['trace', 'eigenvalue'])
        if core.startswith('rank1_pca') and g.coin(0.3):
            a['kw']['atf_kwargs'] = {'scaling': g.choice(['trace', 'eigenvalue'])}
        if core.startswith(('rank1_gev', 'scaled_gev_atf')) and g.coin(0.6):
            a['kw']['atf_kwargs'] = g.choice([{}, {}, {'use_eig': True},
                                             {'use_eig': False}])
        if core.endswith('gev') and g.coin(0.5):
            a['kw']['use_eig'] = g.coin(0.7)
        return a

    @staticmethod
    def run(ctx, a):
        from pb_bss.extraction import get_bf_vector
        import copy
        kw = copy.deepcopy(a['kw'])
        for v in kw.values():
            if isinstance(v, dict):
                guard(ctx, v)      # e.g. the caller's atf_kwargs dict
        return get_bf_vector(a['name'], ctx.arr(a['target']), ctx.arr(a['noise']), **kw)


@entry('bf.primitives', weight=6, group='beamformer')
class _BfPrim:
    WHICH = ['pca_vector', 'pca', 'mvdr', 'mvdr_merl', 'gev', 'gev_eig',
             'lcmv', 'ban', 'distortionless', 'postfilter', 'zero_degree',
             'phase_correction', 'phase_correction_lead', 'condition',
             'apply', 'apply_online', 'opt_ref', 'souden', 'souden_ref',
             'wmwf', 'wmwf_csv', 'rank1_pca', 'rank1_gev', 'utils_pca',
             'stable_solve']

    @staticmethod
    def gen(g):
        D, F, a = _psd_pair(g)
        a['which'] = g.choice(_BfPrim.WHICH)
        a['D'], a['F'] = D, F
        K = g.K()
        a['K'] = K
        a['vec'] = g.arr('cnormal', [F, D], dtype=g.cdtype())
        a['vecs'] = g.arr('cnormal', [K, F, D])
        a['mix'] = g.arr('cnormal', [F, D, g.N()])
        a['ref'] = int(g.rng.randint(D))
        a['gamma'] = float(g.choice([0.0, 1e-3, 0.1]))
        a['scaling'] = g.choice([None, 'trace', 'eigenvalue'])
        a['mu'] = g.choice([0.0, 1.0, 'frequency_dependent'])
        a['csv'] = g.arr('uniform', [D])
        a['wmat'] = g.arr('cnormal', [F, D, D])
        a['lead'] = g.arr('cnormal', [2, F, D])
        a['online'] = g.arr('cnormal', [5, F, D])
        a['online_mix'] = g.arr('cnormal', [F, D, 5])
        return a

    @staticmethod
    def run(ctx, a):
        from pb_bss.extraction import beamformer as b
        from pb_bss.extraction import beamformer_wrapper as bw
        w = a['which']
        T, Nn = ctx.arr(a['target']), ctx.arr(a['noise'])
        vec = ctx.arr(a['vec'])
        if w == 'pca_vector':
            return b.get_pca_vector(T, scaling=a['scaling'])
        if w == 'pca':
            return b.get_pca(T, return_all_vecs=a['ref'] % 2 == 0)
        if w == 'mvdr':
            return b.get_mvdr_vector(vec, Nn)
        if w == 'mvdr_merl':
            return b.get_mvdr_vector_merl(T, Nn)
        if w == 'gev':
            return b.get_gev_vector(T, Nn)
        if w == 'gev_eig':
            return b.get_gev_vector(T, Nn, use_eig=True)
        if w == 'lcmv':
            rv = guard(ctx, [1] + [0] * (a['K'] - 1))
            return b.get_lcmv_vector(ctx.arr(a['vecs']), rv, Nn)
        if w == 'ban':
            return b.blind_analytic_normalization(vec, Nn)
        if w == 'distortionless':
            return b.distortionless_normalization(vec, ctx.arr(a['vecs'])[0], Nn)
        if w == 'postfilter':
            return b.mvdr_snr_postfilter(vec, T, Nn)
        if w == 'zero_degree':
            return b.zero_degree_normalization(vec, a['ref'])
        if w == 'phase_correction':
            return b.phase_correction(vec)
        if w == 'phase_correction_lead':
            return b.phase_correction(ctx.arr(a['lead']))
        if w == 'condition':
            return b.condition_covariance(T, a['gamma'])
        if w == 'apply':
            return b.apply_beamforming_vector(vec, ctx.arr(a['mix']))
        if w == 'apply_online':
            return b.apply_online_beamforming_vector(
                ctx.arr(a['online']), ctx.arr(a['online_mix']))
        if w == 'opt_ref':
            return b.get_optimal_reference_channel(ctx.arr(a['wmat']), T, Nn)
        if w == 'souden':
            return b.get_mvdr_vector_souden(T, Nn, return_ref_channel=True)
        if w == 'souden_ref':
            return b.get_mvdr_vector_souden(T, Nn, ref_channel=a['ref'], eps=1e-12)
        if w == 'wmwf':
            return b.get_wmwf_vector(T, Nn, distortion_weight=a['mu'])
        if w == 'wmwf_csv':
            return b.get_wmwf_vector(T, Nn, channel_selection_vector=ctx.arr(a['csv']))
        if w == 'rank1_pca':
            return bw.get_pca_rank_one_estimate(T)
        if w == 'rank1_gev':
            return bw.get_gev_rank_one_estimate(T, Nn)
        if w == 'utils_pca':
            from pb_bss.utils import get_pca
            return get_pca(T)
        if w == 'stable_solve':
            from pb_bss.math.solve import stable_solve
            return stable_solve(Nn, T)
        raise ValueError(w)


# --------------------------------------------------------------------------
# masks
# --------------------------------------------------------------------------

@entry('mask', weight=6, group='mask')
class _Mask:
    WHICH = ['ideal_binary', 'ideal_binary_sensor', 'wiener_like',
             'wiener_like_sensor', 'ideal_ratio', 'ideal_amplitude',
             'phase_sensitive', 'ideal_complex', 'lorenz', 'lorenz_sensor',
             'quantile', 'quantile_tuple', 'biased_binary', 'vuv']

    @staticmethod
    def gen(g):
        K, F, T, D = g.K(), int(g.choice([3, 5, 8])), g.N(8, 16), g.D()
        w = g.choice(_Mask.WHICH)
        a = {'which': w, 'keepdims': g.coin(),
             'source_axis': int(g.choice([0, 0, 1]))}
        if w.endswith('_sensor'):
            a['x'] = g.arr('cnormal', [K, D, F, T], dtype=g.cdtype())
            a['source_axis'] = 0
        elif w == 'biased_binary':
            a['x'] = g.arr('cnormal', [2, T, 24])
        elif w in ('lorenz', 'quantile'):
            a['x'] = g.arr('cnormal', [F, T + 4], dtype=g.cdtype())
        elif w == 'quantile_tuple':
            a['x'] = g.arr('cnormal', [K, F, T + 4], dtype=g.cdtype())
        else:
            shape = [K, F, T] if a['source_axis'] == 0 else [F, K, T]
            a['x'] = g.arr(g.choice(['cnormal', 'cnormal', 'normal']), shape)
        a['q'] = float(g.choice([0.1, 0.3, -0.7]))
        a['lf'] = float(g.choice([0.9, 0.98]))
        return a

    @staticmethod
    def run(ctx, a):
        from pb_bss.extraction import mask_module as m
        x = ctx.arr(a['x'])
        w = a['which']
        sa = a['source_axis']
        if w == 'ideal_binary':
            return m.ideal_binary_mask(x, source_axis=sa)
        if w == 'ideal_binary_sensor':
            return m.ideal_binary_mask(x, source_axis=0, sensor_axis=1,
                                       keepdims=a['keepdims'])
        if w == 'wiener_like':
            return m.wiener_like_mask(x, source_axis=sa)
        if w == 'wiener_like_sensor':
            return m.wiener_like_mask(x, source_axis=0, sensor_axis=1,
                                      keepdims=a['keepdims'])
        if w == 'ideal_ratio':
            return m.ideal_ratio_mask(x, source_axis=sa)
        if w == 'ideal_amplitude':
            return m.ideal_amplitude_mask(x, source_axis=sa)
        if w == 'phase_sensitive':
            return m.phase_sensitive_mask(x, source_axis=sa)
        if w == 'ideal_complex':
            return m.ideal_complex_mask(x, source_axis=sa)
        if w == 'lorenz':
            return m.lorenz_mask(x, lorenz_fraction=a['lf'])
        if w == 'lorenz_sensor':
            return m.lorenz_mask(x[0], sensor_axis=0, axis=(-2, -1),
                                 lorenz_fraction=a['lf'], keepdims=a['keepdims'])
        if w == 'quantile':
            return m.quantile_mask(x, quantile=a['q'], axis=-1)
        if w == 'quantile_tuple':
            return m.quantile_mask(x, quantile=guard(ctx, [0.1, -0.9]),
                                   axis=guard(ctx, [-2, -1]))
        if w == 'biased_binary':
            return m.biased_binary_mask(x, low_cut=2, high_cut=20)
        if w == 'vuv':
            return m.voiced_unvoiced_split_characteristic(x.shape[-1] * 4)
        raise ValueError(w)


# --------------------------------------------------------------------------
# permutation alignment
# --------------------------------------------------------------------------

def gen_aligner(g, K, F, oracle=True):
    spec = _gen_aligner(g, K, F, oracle)
    # shared aligner objects are keyed by their configuration: re-use earlier
    # configurations so that one aligner object serves several operations
    pool = getattr(g, 'aligner_pool', None)
    if pool is None:
        pool = g.aligner_pool = []
    same = [a for a in pool if a.get('_F', F) == F
            and (oracle or a['kind'] != 'oracle')]
    if same and g.coin(0.6):
        return {k: v for k, v in g.choice(same).items() if k != '_F'}
    pool.append(dict(spec, _F=F))
    return spec


def _gen_aligner(g, K, F, oracle=True):
    kinds = ['greedy', 'dhtv'] + (['oracle'] if oracle else [])
    kind = g.choice(kinds)
    if kind == 'dhtv':
        # F = stft_size // 2 + 1
        width = max(1, F // 2)
        return {'kind': 'dhtv', 'stft_size': 2 * (F - 1),
                'segment_start': int(g.rng.randint(0, F - width + 1)),
                'segment_width': width,
                'segment_shift': max(1, width // 2),
                'main_iterations': int(g.choice([2, 5])),
                'sub_iterations': int(g.choice([1, 2])),
                'similarity_metric': g.choice(['cos', 'cos', 'multiply', 'euclidean']),
                'algorithm': g.choice(['greedy', 'optimal'])}
    return {'kind': kind,
            'similarity_metric': g.choice(['cos', 'euclidean', 'multiply']),
            'algorithm': g.choice(['greedy', 'optimal'])}


def make_aligner(spec):
    from pb_bss import permutation_alignment as pa
    kw = {k: v for k, v in spec.items() if k != 'kind'}
    if spec['kind'] == 'dhtv':
        return pa.DHTVPermutationAlignment(**kw)
    if spec['kind'] == 'greedy':
        return pa.GreedyPermutationAlignment(**kw)
    return pa.OraclePermutationAlignment(**kw)


@entry('pa.aligner', weight=6, group='alignment')
class _Aligner:
    @staticmethod
    def gen(g):
        K, F, T = g.K(), g.F(odd=True), g.N(6, 14)
        if g.coin(0.15):
            F = 257
            al = {'kind': 'dhtv_default', 'stft_size': 512,
                  'similarity_metric': g.choice(['cos', 'euclidean'])}
            T = 6
        else:
            al = gen_aligner(g, K, F)
        a = {'aligner': al,
             'mask': g.arr(g.choice(['affiliation', 'uniform', 'onehot',
                                     'uniform_zeros']), [K, F, T]),
             'method': g.choice(['calculate_mapping', 'call', 'apply_mapping'])}
        if al['kind'] == 'oracle':
            a['ref'] = g.arr('affiliation', [K, F, T])
        if a['method'] == 'apply_mapping':
            a['mapping'] = g.arr('permfield', [K, F], reuse=False)
        return a

    @staticmethod
    def run(ctx, a):
        al = ctx.aligner(a['aligner'])
        mask = ctx.arr(a['mask'])
        extra = [ctx.arr(a['ref'])] if 'ref' in a else []
        if a['method'] == 'calculate_mapping':
            return al.calculate_mapping(mask, *extra)
        if a['method'] == 'call':
            return al(mask, *extra)
        return al.apply_mapping(mask, ctx.arr(a['mapping']))


@entry('pa.default_plan', weight=1.5, group='alignment')
class _PaDefaultPlan:
    """The shipped default configurations (from_stft_size) and their plans."""
    @staticmethod
    def gen(g):
        return {'stft_size': int(g.choice([512, 512, 1024])),
                'metric': g.choice(['cos', 'euclidean'])}

    @staticmethod
    def run(ctx, a):
        from pb_bss.permutation_alignment import DHTVPermutationAlignment
        al = DHTVPermutationAlignment.from_stft_size(a['stft_size'], a['metric'])
        return [al.alignment_plan,
                {k: v for k, v in sorted(vars(al).items())
                 if isinstance(v, (int, float, str))}]


@entry('pa.functions', weight=3, group='alignment')
class _PaFunc:
    @staticmethod
    def gen(g):
        K, F, T = g.K(), g.F(odd=True), g.N(6, 12)
        return {'which': g.choice(['apply_mapping', 'mapping_from_score',
                                   'mapping_from_score_int', 'score_cos',
                                   'score_multiply', 'score_euclidean',
                                   'calc_score', 'vector_norm', 'interleave']),
                'mask': g.arr(g.choice(['affiliation', 'onehot', 'uniform_zeros']),
                              [K, F, T]),
                'ref': g.arr(g.choice(['affiliation', 'onehot']), [K, F, T]),
                'mapping': g.arr('permfield', [K, F], reuse=False),
                'score': g.arr('normal', [F, K, K]),
                'iscore': g.arr('integers', [K, K], low=0, high=2),
                'alg': g.choice(['greedy', 'optimal']),
                'metric': g.choice(['cos', 'multiply', 'euclidean'])}

    @staticmethod
    def run(ctx, a):
        from pb_bss import permutation_alignment as pa
        w = a['which']
        mask, ref = ctx.arr(a['mask']), ctx.arr(a['ref'])
        if w == 'apply_mapping':
            return pa.apply_mapping(mask, ctx.arr(a['mapping']))
        if w == 'mapping_from_score':
            return pa._mapping_from_score_matrix(ctx.arr(a['score']), a['alg'])
        if w == 'mapping_from_score_int':
            s = ctx.arr(a['iscore']).astype(np.int64)
            s.setflags(write=False)
            return pa._mapping_from_score_matrix(s, a['alg'])
        if w.startswith('score_'):
            return getattr(pa._ScoreMatrix, w[6:])(mask, ref)
        if w == 'calc_score':
            return pa._calculate_score_matrix(mask, ref, a['metric'])
        if w == 'vector_norm':
            return pa._parameterized_vector_norm(mask, axis=-1)
        return list(pa.interleave([1, 2, 3], ['a'], [None, 4.5]))


@entry('pa.sample_random_mapping', draws=True, weight=1, group='alignment')
class _PaSample:
    @staticmethod
    def gen(g):
        return {'K': g.K(), 'F': g.F()}

    @staticmethod
    def run(ctx, a):
        from pb_bss import permutation_alignment as pa
        return pa.sample_random_mapping(a['K'], a['F'])


# --------------------------------------------------------------------------
# metrics
# --------------------------------------------------------------------------

@entry('metric', weight=5, group='metric')
class _Metric:
    WHICH = ['si_sdr', 'si_sdr_stack', 'input_sxr', 'input_sxr_dict',
             'output_sxr', 'output_sxr_dict', 'get_snr', 'get_snr_axis',
             'set_snr', 'energy']

    @staticmethod
    def gen(g):
        K, D, T = g.K(), int(g.choice([1, 2, 3])), int(g.choice([16, 40]))
        if g.big or g.coin(0.02):
            T = int(g.choice([70000, 140000]))     # long recordings
            K = 2
        return {'which': g.choice(_Metric.WHICH),
                'images': g.arr('normal', [K, D, T], dtype='float64'),
                'noise': g.arr('normal', [D, T], dtype='float64'),
                'contrib': g.arr('normal', [K, K + int(g.choice([0, 1])), T]),
                'ref': g.arr('normal', [K, T], dtype='float64'),
                'est': g.arr('normal', [K, T], dtype='float64'),
                'cx': g.arr('cnormal', [D, T]),
                'avg_s': g.coin(), 'avg_c': g.coin(),
                'snr': float(g.choice([0, 10, -5]))}

    @staticmethod
    def run(ctx, a):
        from pb_bss.evaluation import sxr_module as s
        from pb_bss.evaluation.module_si_sdr import si_sdr
        w = a['which']
        if w == 'si_sdr':
            return si_sdr(ctx.arr(a['ref'])[0], ctx.arr(a['est'])[0])
        if w == 'si_sdr_stack':
            return si_sdr(ctx.arr(a['ref']), ctx.arr(a['est']))
        if w.startswith('input_sxr'):
            return s.input_sxr(
                ctx.arr(a['images']), ctx.arr(a['noise']),
                average_sources=a['avg_s'], average_channels=a['avg_c'],
                return_dict=(w == 'input_sxr_dict'))
        if w.startswith('output_sxr'):
            c = ctx.arr(a['contrib'])
            n = ctx.arr({'kind': 'normal', 'shape': [c.shape[1], c.shape[2]],
                         'seed': a['contrib']['seed'] + 1})
            return s.output_sxr(c, n, average_sources=a['avg_s'],
                                return_dict=(w == 'output_sxr_dict'))
        if w == 'get_snr':
            return s.get_snr(ctx.arr(a['images']), ctx.arr(a['noise']))
        if w == 'get_snr_axis':
            return s.get_snr(ctx.arr(a['cx']), ctx.arr(a['noise']), axis=-1,
                             keepdims=True)
        if w == 'set_snr':
            return s.set_snr(ctx.arr(a['cx']), ctx.arr(a['noise']), a['snr'],
                             inplace=False)
        return [s.get_energy(ctx.arr(a['cx']), axis=-1),
                s.get_variance_for_zero_mean_signal(ctx.arr(a['cx']))]


@entry('metric.wrapper', weight=1, group='metric')
class _MetricWrapper:
    """InputMetrics of pb_bss.evaluation.wrapper (the parts that need no
    optional dependency): invasive SXR and SI-SDR; a fresh metrics object per
    call, queried twice (its cached properties must not change anything)."""
    @staticmethod
    def gen(g):
        K, D, T = g.K(), int(g.choice([1, 2, 3])), int(g.choice([16, 40]))
        return {'obs': g.arr('normal', [D, T], dtype='float64'),
                'src': g.arr('normal', [K, T], dtype='float64'),
                'img': g.arr('normal', [K, D, T], dtype='float64'),
                'noise': g.arr('normal', [D, T], dtype='float64'),
                'which': g.choice(['invasive_sxr', 'invasive_sdr', 'si_sdr',
                                   'names'])}

    @staticmethod
    def run(ctx, a):
        from pb_bss.evaluation.wrapper import InputMetrics
        m = InputMetrics(ctx.arr(a['obs']), ctx.arr(a['src']),
                         speech_image=ctx.arr(a['img']),
                         noise_image=ctx.arr(a['noise']), sample_rate=8000,
                         enable_si_sdr=True)
        if a['which'] == 'names':
            return [list(m._available_metric_names()),
                    list(m._disabled_metric_names())]
        first = m[a['which']]
        second = getattr(m, a['which'])
        return [first, second]


@entry('bf.utils', weight=1, group='beamformer')
class _BfUtils:
    @staticmethod
    def gen(g):
        K, D = g.K(), g.D()
        return {'which': g.choice(['steering', 'steering_norm', 'diffuse',
                                   'tdoa', 'tof']),
                'tdoa': g.arr('uniform', [K, D], low=-1e-3, high=1e-3),
                'dist': g.arr('uniform', [D, D], low=0.01, high=0.3),
                'src': g.arr('normal', [3, K]),
                'sensors': g.arr('normal', [3, D])}

    @staticmethod
    def run(ctx, a):
        from pb_bss.extraction import beamform_utils as u
        w = a['which']
        if w == 'steering':
            return u.get_steering_vector(ctx.arr(a['tdoa']), stft_size=32)
        if w == 'steering_norm':
            return u.get_steering_vector(ctx.arr(a['tdoa']), stft_size=32,
                                         normalize=True)
        if w == 'diffuse':
            return u.get_diffuse_noise_psd(ctx.arr(a['dist']), fft_size=32)
        if w == 'tof':
            return u.get_nearfield_time_of_flight(ctx.arr(a['src']),
                                                  ctx.arr(a['sensors']))
        return u.get_farfield_time_difference_of_arrival(
            ctx.arr(a['src']), ctx.arr(a['sensors']))


# --------------------------------------------------------------------------
# recycled buffers: the result depends on the CONTENT of the arguments, not
# on which buffer carries it
# --------------------------------------------------------------------------

class PurityViolation(Exception):
    pass


class _RecycleCtx:
    """Serves every array spec through a caller-owned buffer that is refilled
    between two calls (phase 0: the spec's content, phase 1: the content of
    the same spec with another seed -- same address, shape, strides, dtype)."""

    def __init__(self, ctx, buffers=None, phase=0, use_buffers=True):
        self.ctx, self.phase, self.use_buffers = ctx, phase, use_buffers
        self.buffers = {} if buffers is None else buffers
        self.sources = {}

    def _swapped(self, spec):
        if self.phase == 0 or 'seed' not in spec:
            return spec
        return dict(spec, seed=int(spec['seed']) + 7919)

    def arr(self, spec):
        import json
        src = self.ctx.arr(self._swapped(spec))
        if not self.use_buffers:
            # a fresh allocation with the layout of the buffers (C order):
            # only the address differs from the recycled-buffer call
            fresh = np.empty(src.shape, dtype=src.dtype)
            fresh[...] = src
            return fresh
        key = json.dumps(spec, sort_keys=True)
        buf = self.buffers.get(key)
        if buf is None:
            buf = self.buffers[key] = np.empty(src.shape, dtype=src.dtype)
        buf[...] = src
        self.sources[key] = src
        return buf

    def check_untouched(self):
        for key, src in self.sources.items():
            if self.buffers[key].tobytes() != np.ascontiguousarray(src).tobytes():
                raise PurityViolation('a caller-owned buffer was modified')

    @property
    def guards(self):
        return getattr(self.ctx, 'guards', None)

    def model(self, ref):
        return self.ctx.model(ref)

    def trainer(self, kind, kwargs=None, dim=None):
        return self.ctx.trainer(kind, kwargs, dim=dim)

    def aligner(self, spec):
        return self.ctx.aligner(spec)


RECYCLE_TARGETS = ['model.predict', 'model.predict', 'model.log_likelihood',
                   'dist.log_pdf', 'bf.psd', 'mask', 'normalize_observation',
                   'pa.aligner', 'pa.functions', 'metric', 'bf.primitives',
                   'mmu.log_pdf_to_affiliation', 'cacg.from_covariance']


@entry('recycle', weight=5, group='mixture')
class _Recycle:
    @staticmethod
    def gen(g):
        for _ in range(4):
            t = g.choice(RECYCLE_TARGETS)
            a = ENTRIES[t].gen(g)
            if a is not None:
                return {'target': t, 'a': a, 'which': a.get('which') or a.get('variant')}
        return None

    @staticmethod
    def run(ctx, a):
        from . import digest as dg
        run = ENTRIES[a['target']].run
        c0 = _RecycleCtx(ctx, phase=0)
        r1 = run(c0, a['a'])
        c0.check_untouched()
        c1 = _RecycleCtx(ctx, buffers=c0.buffers, phase=1)
        r2 = run(c1, a['a'])
        c1.check_untouched()
        r3 = run(_RecycleCtx(ctx, phase=1, use_buffers=False), a['a'])
        d = dg.first_difference(r2, r3, 'result')
        if d:
            raise PurityViolation(
                'the same argument values give another result when they '
                'arrive in a buffer that carried other data during an '
                'earlier call: ' + d)
        return [r1, r2]


# --------------------------------------------------------------------------
# BinaryGMM (k-means wrapper; draws its start from the global NumPy RNG)
# --------------------------------------------------------------------------

@entry('binarygmm', draws=True, weight=1.5, group='mixture')
class _BinaryGmm:
    @staticmethod
    def gen(g):
        K, D = g.K(), g.D()
        N = g.N(4 * K, 30)
        if g.big and g.coin(0.5):
            N = 70000        # more than 2**18 elements
            D = max(D, 4)
        a = {'x': g.arr('rclusters', [N, D], K=K, dtype=g.choice(['float64', 'float64', 'float32'])),
             'K': K, 'predict_other': g.coin(0.3), 'seed': g.seed()}
        if g.coin(0.3):
            a['saliency'] = g.arr('bool', [N], p=0.8, reuse=False)
        return a

    @staticmethod
    def run(ctx, a):
        from pb_bss.distribution import BinaryGMMTrainer
        x = ctx.arr(a['x'])
        sal = ctx.arr(a['saliency']) if 'saliency' in a else None
        model = BinaryGMMTrainer().fit(x, a['K'], saliency=sal)
        spec = dict(a['x'], seed=a['seed']) if a['predict_other'] else a['x']
        return [model.kmeans.cluster_centers_, model.predict(ctx.arr(spec))]


@entry('binarygmm.fit', draws=True, weight=1.0, group='mixture',
       returns_model='binarygmm')
class _BinaryGmmFit:
    """The fitted BinaryGMM model goes to the model pool (it wraps a
    scikit-learn estimator object)."""
    @staticmethod
    def gen(g):
        K, D = g.K(), g.D()
        N = g.N(4 * K, 30)
        return {'x': g.arr('rclusters', [N, D], K=K, dtype='float64'), 'K': K}

    @staticmethod
    def run(ctx, a):
        from pb_bss.distribution import BinaryGMMTrainer
        return BinaryGMMTrainer().fit(ctx.arr(a['x']), a['K'])


@entry('binarygmm.predict', weight=1.5, group='mixture')
class _BinaryGmmPredict:
    @staticmethod
    def gen(g):
        ref = g.pick_model(['binarygmm'])
        if ref is None:
            return None
        return {'model': ref, 'seed': g.seed(), 'other_data': g.coin(0.5),
                'dtype': g.choice(['float64', 'float64', 'float32'])}

    @staticmethod
    def run(ctx, a):
        m = ctx.model(a['model'])
        spec = dict(m.origin['x'], dtype=a['dtype'])
        if a['other_data']:
            spec['seed'] = a['seed']
        return m.value.predict(ctx.arr(spec))


def copy_cacgmm(m):
    """A new CACGMM with equal field values (no object identity shared)."""
    from pb_bss.distribution import CACGMM, ComplexAngularCentralGaussian
    return CACGMM(
        weight=np.array(m.weight, copy=True),
        cacg=ComplexAngularCentralGaussian(
            covariance_eigenvectors=np.array(m.cacg.covariance_eigenvectors, copy=True),
            covariance_eigenvalues=np.array(m.cacg.covariance_eigenvalues, copy=True)))


@entry('model.edit', weight=1.5, group='mixture')
class _ModelEdit:
    """The caller updates a field of a model it owns: the model must behave
    like a new model with those field values."""
    @staticmethod
    def gen(g):
        ref = g.pick_model(['cacgmm'])
        return None if ref is None else {
            'model': ref, 'floor': float(g.choice([0.05, 0.3])),
            'what': g.choice(['eigenvalues', 'weight'])}

    @staticmethod
    def run(ctx, a):
        from . import digest as dg
        m = ctx.model(a['model'])
        obs = ctx.arr(m.origin['obs'])
        m2 = copy_cacgmm(m.value)
        p1 = m2.predict(obs)
        ll1 = m2.log_likelihood(obs)
        if a['what'] == 'eigenvalues':
            m2.cacg.covariance_eigenvalues = np.maximum(
                m2.cacg.covariance_eigenvalues, a['floor'])
        else:
            w = np.array(m2.weight, copy=True)
            m2.weight = w[..., ::-1, :] if w.ndim >= 2 else w
        p2 = m2.predict(obs)
        ll2 = m2.log_likelihood(obs)
        m3 = copy_cacgmm(m2)
        p3 = m3.predict(obs)
        ll3 = m3.log_likelihood(obs)
        d = dg.first_difference([p2, ll2], [p3, ll3], 'result')
        if d:
            raise PurityViolation(
                'a model whose fields the caller updated gives another result '
                'than a new model with equal field values: ' + d)
        return [p1, ll1, p2, ll2]
