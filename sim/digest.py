"""Deep, bitwise digests and comparisons of results (arrays, scalars, models)."""
import dataclasses
import hashlib

import numpy as np


def _update(h, obj):
    if isinstance(obj, np.ndarray):
        h.update(b'A')
        h.update(str(obj.dtype).encode())
        h.update(repr(obj.shape).encode())
        if obj.dtype == object:
            for x in obj.ravel():
                _update(h, x)
        else:
            h.update(np.ascontiguousarray(obj).tobytes())
    elif isinstance(obj, np.generic):
        h.update(b'G')
        h.update(str(obj.dtype).encode())
        h.update(obj.tobytes())
    elif obj is None or isinstance(obj, (bool, int, float, complex, str, bytes)):
        h.update(b'S')
        h.update(type(obj).__name__.encode())
        h.update(repr(obj).encode())
    elif isinstance(obj, (tuple, list)):
        h.update(b'T' if isinstance(obj, tuple) else b'L')
        h.update(str(len(obj)).encode())
        for x in obj:
            _update(h, x)
    elif isinstance(obj, dict):
        h.update(b'D')
        for k in sorted(obj, key=repr):
            _update(h, k)
            _update(h, obj[k])
    elif dataclasses.is_dataclass(obj) and not isinstance(obj, type):
        h.update(b'C')
        h.update(type(obj).__name__.encode())
        for name in obj.__dataclass_fields__:
            h.update(name.encode())
            _update(h, obj.__dict__.get(name))
    elif isinstance(obj, BaseException):
        h.update(b'E')
        h.update(type(obj).__name__.encode())
    else:
        h.update(b'O')
        h.update(type(obj).__name__.encode())
        d = getattr(obj, '__dict__', None)
        if d is not None:
            for k in sorted(d):
                h.update(k.encode())
                _update(h, d[k])


def digest(obj):
    h = hashlib.sha1()
    _update(h, obj)
    return h.hexdigest()[:20]


def array_digest(a):
    h = hashlib.sha1()
    h.update(str(a.dtype).encode())
    h.update(repr(a.shape).encode())
    h.update(np.ascontiguousarray(a).tobytes())
    return h.hexdigest()[:20]


def arrays_in(obj, prefix='', out=None, seen=None):
    """All ndarrays reachable from obj, as {path: array}."""
    if out is None:
        out = {}
    if seen is None:
        seen = set()
    if id(obj) in seen:
        return out
    if isinstance(obj, np.ndarray):
        out[prefix or '.'] = obj
    elif isinstance(obj, (tuple, list)):
        seen.add(id(obj))
        for i, x in enumerate(obj):
            arrays_in(x, f'{prefix}[{i}]', out, seen)
    elif isinstance(obj, dict):
        seen.add(id(obj))
        for k in obj:
            arrays_in(obj[k], f'{prefix}[{k!r}]', out, seen)
    elif dataclasses.is_dataclass(obj) and not isinstance(obj, type):
        seen.add(id(obj))
        for name in obj.__dataclass_fields__:
            arrays_in(obj.__dict__.get(name), f'{prefix}.{name}', out, seen)
    elif hasattr(obj, '__dict__') and not isinstance(obj, type) \
            and type(obj).__module__.startswith(('pb_bss', 'sim', 'sklearn')):
        seen.add(id(obj))
        for k, v in vars(obj).items():
            arrays_in(v, f'{prefix}.{k}', out, seen)
    return out


def first_difference(a, b, path=''):
    """None if a and b are bitwise equal (type, dtype, shape, bytes), else a
    short description of the first difference found."""
    if isinstance(a, np.ndarray) or isinstance(b, np.ndarray):
        if not (isinstance(a, np.ndarray) and isinstance(b, np.ndarray)):
            return f'{path}: {type(a).__name__} vs {type(b).__name__}'
        if a.dtype != b.dtype:
            return f'{path}: dtype {a.dtype} vs {b.dtype}'
        if a.shape != b.shape:
            return f'{path}: shape {a.shape} vs {b.shape}'
        if np.ascontiguousarray(a).tobytes() != np.ascontiguousarray(b).tobytes():
            with np.errstate(all='ignore'):
                try:
                    d = float(np.nanmax(np.abs(a.astype(complex) - b.astype(complex))))
                except Exception:
                    d = float('nan')
            return f'{path}: values differ (max abs diff {d:.3g})'
        return None
    if isinstance(a, np.generic) or isinstance(b, np.generic):
        if type(a) != type(b):
            return f'{path}: {type(a).__name__} vs {type(b).__name__}'
        if a.tobytes() != b.tobytes():
            return f'{path}: {a!r} vs {b!r}'
        return None
    if type(a) != type(b):
        return f'{path}: type {type(a).__name__} vs {type(b).__name__}'
    if isinstance(a, (tuple, list)):
        if len(a) != len(b):
            return f'{path}: len {len(a)} vs {len(b)}'
        for i, (x, y) in enumerate(zip(a, b)):
            d = first_difference(x, y, f'{path}[{i}]')
            if d:
                return d
        return None
    if isinstance(a, dict):
        if sorted(a, key=repr) != sorted(b, key=repr):
            return f'{path}: keys differ'
        for k in a:
            d = first_difference(a[k], b[k], f'{path}[{k!r}]')
            if d:
                return d
        return None
    if dataclasses.is_dataclass(a):
        for name in a.__dataclass_fields__:
            d = first_difference(a.__dict__.get(name), b.__dict__.get(name),
                                 f'{path}.{name}')
            if d:
                return d
        return None
    if isinstance(a, BaseException):
        return None
    if hasattr(a, '__dict__') and not isinstance(a, type) \
            and type(a).__module__.startswith(('pb_bss', 'sklearn')):
        return first_difference(dict(vars(a)), dict(vars(b)), path)
    if isinstance(a, float) and a != a and b != b:
        return None
    if a != b:
        return f'{path}: {a!r} vs {b!r}'
    return None
