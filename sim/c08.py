"""C08 -- trainers return the documented weighted estimators and EM
alternates them.

The EM loop of every mixture trainer is stepped through the guarded observer
hook.  Every reported step is checked, *from the implementation's own state*,
against the executable reference model in spec_em.py:

  R0 schedule   n iterations = n step reports 0..n-1; step 0 starts from the
                given start; the returned model is the last reported one
  R1 M-step     model_i == SpecM(affiliation_i, quadratic_form_i, saliency)
  R2 E-step     affiliation_{i+1} == Bayes posterior of model_i (mask, eps),
                quadratic_form_{i+1} == z^H B_i^-1 z
  R3 alignment  one permutation per bin maps posterior AND quadratic form

also under injected LAPACK failures (a fallback may fail, it may not return a
wrong estimator) and cancellation.  The stand-alone distribution trainers on
shared trainer objects, the Tyler fixed point and the integer-saliency ==
repetition law are checked by further operation kinds.
"""
import copy
import hashlib
import json

import numpy as np

from . import data, models, ops as catalogue, seams, spec_em as S
from .seams import SimulatedCancel

PROPERTY = 'C08'

RULE = (
    'one run = one seeded program of 1-5 operations on shared trainer '
    'objects: "mixfit" (a stepped fit of one of the 7 mixture trainers, '
    '1-8 iterations, all tying options, saliency none/real/integer, '
    'source-activity mask, affiliation_eps, covariance norms/types, inline '
    'aligner or built-in alignment, start from array / num_classes / '
    'returned cACGMM model, optional injected LAPACK failure or '
    'cancellation), "distfit" (stand-alone trainer vs the defining formula), '
    '"tyler" (n-fold Tyler step and fixed point), "repetition" (integer '
    'saliency vs repeated observations). distinct = distinct schedule '
    'signature (op kinds, model, K, D, F, options, fault fired); '
    'non-trivial = distinct and at least one M-step and one E-step were '
    'compared with the reference model (or a stand-alone estimator was)')
ASSUMPTIONS = [
    'the reference model sim/spec_em.py is written from the formulas in the '
    'property statement; numpy.linalg.eigh of the reference is trusted',
    'the E-step oracle uses the library\'s component log_pdf as p_k (C07 is '
    'not decided here)',
    'double precision inputs only (tolerance 1e-8 relative per step)',
    'Watson concentration is compared in the eigenvalue-ratio domain (1e-6; '
    '1e-4 for non-default spline_markers); concentrations below the first '
    'spline knot 1e-3 may be reported as 0',
    'after an injected LAPACK failure the fit may raise; if it returns, the '
    'same tolerances apply',
]
COMPONENTS = {
    'real': ['pb_bss (working tree, hooks on)', 'numpy', 'scipy',
             'scikit-learn', 'BLAS/LAPACK'],
    'stubbed': [],
    'simulator_owned': ['EM step observer', 'numpy.linalg shim (fail k-th '
                        'call from pb_bss)', 'global numpy RNG seed'],
}


# --------------------------------------------------------------------------
# generation
# --------------------------------------------------------------------------

def _mk(g, kind, shape, **kw):
    spec = {'kind': kind, 'shape': [int(s) for s in shape], 'seed': g.seed(),
            'layout': g.choice(['C', 'C', 'C', 'F', 'neg'])}
    spec.update(kw)
    return spec


def gen_mixfit(g, kind=None, thorough=False):
    kind = kind or g.choice(['cacgmm', 'cacgmm', 'cwmm', 'cwmm', 'gmm', 'vmfmm',
                             'gcacgmm', 'vmfcacgmm', 'cbmm'])
    K = int(g.choice([2, 2, 3]))
    D = int(g.choice([2, 3, 4, 5]))
    E = int(g.choice([2, 3, 4]))
    if thorough and g.coin(0.3):
        K = int(g.choice([2, 3, 4]))
        D = int(g.choice([2, 3, 4, 5, 6, 7, 8, 9, 10]))
    if g.coin(0.03):
        K = int(g.choice([5, 6]))
    if g.coin(0.03):
        D = int(g.choice([9, 10, 12]))      # more than 8 channels / features
    integration = kind in models.INTEGRATION
    opts = {}
    aligner = None
    many_classes = integration and g.coin(0.006)
    if many_classes:
        K = 7          # built-in alignment: K! = 5040 candidate permutations
    if kind == 'cbmm':
        D, K = int(g.choice([2, 3, 3, 4, 5])), 2
    if integration:
        F = int(g.choice([1, 2, 3]))
    else:
        F = int(g.choice([0, 1, 2, 3]))
    if kind in ('cacgmm', 'cwmm', 'cbmm') and g.coin(0.3):
        F = int(g.choice([3, 5] + ([7, 9] if thorough else [])))
        if kind == 'cbmm':
            F = 3
        aligner = catalogue.gen_aligner(g, K, F, oracle=False)
        opts['weight_constant_axis'] = g.choice([[-3], [-3, -1]])
    elif integration:
        opts['weight_constant_axis'] = list(g.choice(
            [(-1,), (-3,), (-3, -1), (-3, -2, -1), (-2, -1)]))
    elif F > 0:
        if kind != 'cbmm' and g.coin(0.04):
            F = int(g.rng.randint(4, 13))      # many independent bins
        opts['weight_constant_axis'] = g.choice(
            [[-1], [-3], [-3, -1], -2, [-2], [-1]])
    else:
        opts['weight_constant_axis'] = g.choice([[-1], [-1], -2])
    lead = [F] if F > 0 else []
    N = int(g.rng.randint(max(D, E if integration else 0) + 2,
                          30 if kind != 'cbmm' else 12))
    if kind in ('cacgmm', 'cwmm', 'vmfmm') and F <= 3 and g.coin(0.006):
        N = int(g.rng.randint(3000, 5000))   # long signals
    if kind != 'cbmm' and g.coin(0.05):
        N = int(g.rng.randint(260, 600))    # size-dependent code paths
    if kind in ('gmm', 'gcacgmm') and g.coin(0.04):
        N = int(g.rng.randint(4200, 6000)) // max(F, 1)
    if aligner is not None and kind != 'cbmm' and g.coin(0.05):
        N = int(g.rng.randint(2000, 2600))  # long signals with inline aligner
    if many_classes:
        N = min(N, 40)
    huge = kind == 'gmm' and F == 0 and g.coin(0.02)
    if huge:
        # more than 2**22 elements in the (K, N, D) temporaries
        N = int(2 ** 22 // (K * D) + g.rng.randint(1000, 50000))
    a = {'op': 'mixfit', 'kind': kind, 'K': K, 'D': D, 'F': F, 'N': N, 'E': E}
    if kind == 'cwmm' and g.coin(0.3):
        hi = float(g.choice([30.0, 300.0, 640.0]))
        a['obs'] = _mk(g, 'cdirectional', lead + [N, D], K=K,
                       kappa_low=float(g.choice([5.0, hi / 2])), kappa_high=hi)
    elif kind in models.COMPLEX_OBS:
        a['obs'] = _mk(g, g.choice(['cnormal', 'cclusters', 'cclusters']),
                       lead + [N, D], K=K,
                       spread=float(g.choice([1.0, 1.0, 0.3, 0.05, 0.01])),
                       dynamic_range=float(g.choice([0, 0, 0, 6, 12, 19])))
        if a['obs']['kind'] == 'cclusters':
            geometry = int(g.rng.randint(12))
            if geometry == 0 and N >= K * (D + 2) + 4:
                a['obs']['unbalanced'] = D + 2
            elif geometry == 1:
                a['obs']['duplicates'] = float(g.choice([0.05, 0.3]))
            elif geometry == 2:
                a['obs']['real_valued'] = True
    elif kind == 'vmfmm':
        a['obs'] = _mk(g, g.choice(['normal', 'rclusters']), lead + [N, D], K=K,
                       sep=float(g.choice([2.0, 2.0, 6.0, 30.0])))
    else:
        a['obs'] = _mk(g, 'rclusters', lead + [N, D], K=K,
                       scale=float(g.choice([1.0, 1.0, 1e-2, 30.0])),
                       offset=float(g.choice([0, 0, 0, 1e3, 3e5])),
                       order=g.choice(['shuffled', 'sorted']))
    if kind in ('cacgmm', 'cwmm', 'gcacgmm', 'vmfcacgmm', 'vmfmm') and g.coin(0.06):
        # digital silence (not for the Bingham models: a zero vector is not a
        # point of the sphere and the moment equation has no solution then)
        a['obs']['zero_frames'] = int(g.choice([1, 2, 3]))
    if huge:
        a['obs']['offset'] = float(g.choice([1e3, 1e4, 3e5]))
    if kind == 'gcacgmm':
        a['emb'] = _mk(g, 'rclusters', lead + [N, E], K=K,
                       scale=float(g.choice([1.0, 1.0, 1e-2, 30.0])),
                       offset=float(g.choice([0, 0, 0, 1e3, 3e5])),
                       order=g.choice(['shuffled', 'sorted']))
    if kind == 'vmfcacgmm':
        a['emb'] = _mk(g, 'unit_rows', lead + [N, E])
    start = g.choice(['array', 'array', 'array', 'num_classes'])
    if kind == 'cacgmm' and g.coin(0.3):
        start = 'model'
        a['pre_iterations'] = int(g.choice([1, 2]))
    a['start'] = start
    if start != 'num_classes':
        ishape = lead + [K, N]
        if kind == 'cacgmm' and lead and aligner is None and g.coin(0.15):
            ishape = [1, K, N]
        a['init'] = _mk(g, g.choice(['affiliation', 'affiliation_onehotish']), ishape)
        if g.coin(0.1):
            a['init']['dtype'] = 'float32'     # a valid start of lower precision
    sk = g.choice(['none', 'none', 'real', 'int'])
    if sk == 'real':
        sc = g.choice([1.0, 1.0, 1.0, 1e-2, 1e-4, 1e-12])    # estimators are scale free
        a['saliency'] = _mk(g, 'uniform', lead + [N], low=0.1 * sc, high=2.0 * sc)
    elif sk == 'int':
        a['saliency'] = _mk(g, 'integers', lead + [N], low=1, high=4)
    if kind == 'cacgmm':
        if g.coin(0.6):
            opts['covariance_norm'] = g.choice(['eigenvalue', 'trace', False])
        if g.coin(0.5):
            opts['affiliation_eps'] = g.choice([0.0, 1e-10, 1e-6])
        if g.coin(0.25):
            opts['hermitize'] = False
        if g.coin(0.25):
            opts['eigenvalue_floor'] = g.choice([1e-10, 1e-6, 1e-3, 0.0])
            if opts['eigenvalue_floor'] == 0.0 and a['obs']['kind'] == 'cclusters' \
                    and g.coin(0.5):
                a['obs']['spread'] = 1e-6      # nearly coherent sources
        if start == 'array' and a['init']['shape'] == lead + [K, N] and g.coin(0.3):
            a['sam'] = _mk(g, 'activity', lead + [K, N])
    if kind in ('gmm', 'gcacgmm'):
        ct = g.choice(['full', 'diagonal', 'spherical'])
        if kind == 'gmm' and F > 0:
            ct = 'full'
        opts['covariance_type'] = ct
        if g.coin(0.15):
            Dg = E if kind == 'gcacgmm' else D
            glead = lead if kind == 'gmm' else []
            if ct == 'full':
                a['fixed_covariance'] = _mk(g, 'spd', glead + [K, Dg, Dg], load=0.3)
            elif ct == 'diagonal':
                a['fixed_covariance'] = _mk(g, 'uniform', glead + [K, Dg], low=0.3, high=2.0)
            else:
                a['fixed_covariance'] = _mk(g, 'uniform', glead + [K], low=0.3, high=2.0)
    if integration:
        if g.coin(0.3) or many_classes:
            opts['inline_permutation_alignment'] = True

        if g.coin(0.3):
            opts['spatial_weight'] = float(g.choice([0.5, 1.0, 2.0]))
            opts['spectral_weight'] = float(g.choice([0.5, 1.0, 2.0]))
        if g.coin(0.4):
            opts['covariance_norm'] = g.choice(['eigenvalue', 'trace', False])
        if g.coin(0.4):
            opts['affiliation_eps'] = g.choice([0.0, 1e-10, 1e-6])
        if g.coin(0.2):
            opts['eigenvalue_floor'] = g.choice([1e-10, 1e-6, 0.0])
    if kind in ('vmfmm', 'vmfcacgmm') and g.coin(0.4):
        opts['max_concentration'] = float(g.choice([20, 500]))
        opts['min_concentration'] = float(g.choice([1e-10, 0.5]))
    if kind == 'cbmm' and g.coin(0.3):
        opts['affiliation_eps'] = g.choice([0, 1e-10])
    a['opts'] = opts
    if aligner is not None:
        a['aligner'] = aligner
    a['iterations'] = int(g.rng.randint(1, 9)) if kind != 'cbmm' \
        else int(g.choice([1, 2]))
    if huge:
        a['iterations'] = int(g.choice([1, 2]))
    if many_classes:
        a['iterations'] = min(a['iterations'], 3)
    a['fault'] = None
    # fit_predict = fit, then the Bayes posterior of the returned model
    a['method'] = 'fit_predict' if g.coin(0.2) else 'fit'
    return a


def gen_distfit(g):
    kind = g.choice(['gaussian', 'gaussian', 'ccsg', 'vmf', 'watson', 'watson',
                     'bingham'])
    D = int(g.choice([2, 3, 4, 5])) if kind != 'bingham' else int(g.choice([2, 3, 3, 4, 5]))
    N = int(g.rng.randint(D + 2, 30))
    if kind != 'bingham' and g.coin(0.05):
        N = int(g.rng.randint(260, 600))
    lead = [int(x) for x in g.choice([[], [], [2], [2, 3]])]
    if kind == 'bingham':
        lead = []
    if kind in ('watson', 'vmf', 'gaussian', 'ccsg') and g.coin(0.3):
        D = int(g.choice([2, 6, 7, 8, 9, 10, 12]))
        N = max(N, D + 2)
    if kind in ('gaussian', 'ccsg') and g.coin(0.05):
        D = 1
    a = {'op': 'distfit', 'kind': kind, 'D': D, 'opts': {}}
    # directional trainers: visit the whole concentration range
    noise = float(10 ** g.rng.uniform(-3, -0.3))
    if kind in ('ccsg', 'watson', 'bingham'):
        if kind != 'ccsg' and g.coin(0.5):
            a['y'] = _mk(g, 'cconcentrated', lead + [N, D], noise=noise)
        else:
            a['y'] = _mk(g, 'cnormal', lead + [N, D])
    elif kind == 'vmf' and g.coin(0.5):
        a['y'] = _mk(g, 'rconcentrated', lead + [N, D], noise=noise)
    else:
        a['y'] = _mk(g, g.choice(['normal', 'rclusters']), lead + [N, D], K=2)
    if kind in ('watson', 'vmf', 'ccsg') and g.coin(0.06):
        a['y']['zero_frames'] = int(g.choice([1, 2]))
    sk = g.choice(['none', 'real', 'int', 'real', 'bool', 'int8'])
    if sk == 'real':
        sc = g.choice([1.0, 1.0, 1e-2, 1e-4, 1e-12])
        a['saliency'] = _mk(g, 'uniform', lead + [N], low=0.0, high=2.0 * sc)
    elif sk == 'int':
        a['saliency'] = _mk(g, 'integers', lead + [N], low=1, high=4)
    elif sk == 'bool':
        # a boolean mask is a saliency too (weight zero == observation absent)
        a['saliency'] = _mk(g, 'bool', lead + [N], p=0.7, some_true=True)
    elif sk == 'int8':
        a['saliency'] = _mk(g, 'integers', lead + [N], low=0, high=60,
                            dtype=g.choice(['int8', 'uint8', 'int32']))
    if kind == 'gaussian':
        a['opts']['covariance_type'] = g.choice(['full', 'diagonal', 'spherical'])
        if a['opts']['covariance_type'] != 'full':
            a['y']['shape'] = [N, D]
            if 'saliency' in a:
                a['saliency']['shape'] = [N]
    if kind == 'vmf' and g.coin(0.5):
        a['opts']['max_concentration'] = float(g.choice([5, 50, 500]))
        a['opts']['min_concentration'] = float(g.choice([1e-10, 1.0]))
    a['repetition'] = bool(sk == 'int' and not lead and g.coin(0.7))
    if kind == 'bingham' and D >= 3 and g.coin(0.3):
        # weighted scatter with two nearly equal eigenvalues: observations on
        # an orthonormal basis, weights w, w + delta, rest
        N = 2 * D
        delta = float(10 ** g.rng.uniform(-5, -3))
        w = g.rng.uniform(0.8, 1.2, size=D)
        w[1] = w[0] + delta
        a['y'] = {'kind': 'basis_rows', 'shape': [N, D], 'seed': g.seed(),
                  'layout': 'C'}
        a['saliency'] = {'kind': 'explicit', 'shape': [N], 'seed': 0,
                         'values': [float(w[n % D]) for n in range(N)]}
        a['repetition'] = False
    return a


def gen_tyler(g):
    D = int(g.choice([2, 3, 4, 5]))
    N = int(g.rng.randint(4 * D, 8 * D))
    a = {'op': 'tyler', 'D': D, 'y': _mk(g, g.choice(['cnormal', 'cclusters']),
                                         [N, D], K=1),
         'iterations': int(g.choice([1, 2, 3, 5, 10])),
         'opts': {}}
    if g.coin(0.15):
        # no floor, nearly coherent source; one step only (the n-step
        # comparison is not conditioning-aware)
        a['opts']['eigenvalue_floor'] = 0.0
        a['y'] = _mk(g, 'cclusters', [N, D], K=1, spread=1e-6)
        a['iterations'] = 1
    if g.coin(0.5):
        a['opts']['covariance_norm'] = g.choice(['eigenvalue', 'trace', False])
    if g.coin(0.2):
        a['opts']['hermitize'] = False
    a['fixed_point'] = g.coin(0.4)
    return a


def gen_repetition(g):
    kind = g.choice(['cacgmm', 'cwmm', 'gmm', 'vmfmm', 'gcacgmm', 'vmfcacgmm'])
    a = gen_mixfit(g, kind)
    a['op'] = 'repetition'
    a['iterations'] = int(g.choice([1, 2, 3]))
    a.pop('aligner', None)
    a.pop('sam', None)
    a['start'] = 'array'
    F, K = a['F'], a['K']
    N = max(a['N'], 4 * K * max(a['D'], a['E'] if kind in models.INTEGRATION else 0))
    N = min(N, 400)
    a['N'] = N
    lead = [F] if F > 0 else []
    for key in ('obs', 'emb'):
        if key in a:
            a[key]['shape'][-2] = N
    a['init'] = _mk(g, 'affiliation', lead + [K, N])
    # one integer saliency per observation index, identical in every slice
    a['saliency'] = _mk(g, 'integers', [N], low=1, high=4)
    if g.coin(0.3):
        # weight zero == observation absent; counts up to 6
        a['saliency'] = _mk(g, 'integers', [N], low=0, high=int(g.choice([4, 6])))
    if a['opts'].get('weight_constant_axis') in ([-3], [-3, ]):
        a['opts']['weight_constant_axis'] = [-3, -1]
    a['opts'].pop('inline_permutation_alignment', None)
    return a


def generate(run_seed, tier='quick'):
    rng = np.random.RandomState(run_seed % (2 ** 32))
    thorough = tier == 'thorough'
    g = catalogue.G(rng, [2, 3, 4, 5], thorough)
    program_ops = []
    n_ops = int(g.choice([1, 1, 2, 3, 4]))
    fault_run = g.coin(0.3)
    for _ in range(n_ops):
        r = rng.uniform()
        if r < 0.6:
            op = gen_mixfit(g, thorough=thorough)
            if fault_run and g.coin(0.8):
                if g.coin(0.75):
                    op['fault'] = {'kind': 'lapack',
                                   'func': g.choice(['eigh', 'eigh', 'eigh', 'eig', 'solve']),
                                   'k': int(g.rng.randint(0, 12))}
                else:
                    op['fault'] = {'kind': 'cancel',
                                   'at': int(g.rng.randint(0, op['iterations']))}
        elif r < 0.8:
            op = gen_distfit(g)
            if fault_run and g.coin(0.4):
                op['fault'] = {'kind': 'lapack', 'func': 'eigh', 'k': 0}
        elif r < 0.88:
            op = gen_tyler(g)
        else:
            op = gen_repetition(g)
        program_ops.append(op)
    tk = {}
    if g.coin(0.3):
        tk['cwmm'] = g.choice([{'max_concentration': 100}, {'spline_markers': 300},
                               {'max_concentration': 50, 'spline_markers': 2000},
                               {'max_concentration': 650}])
    if g.coin(0.3):
        tk['dist:watson'] = g.choice([{'max_concentration': 100},
                                      {'spline_markers': 300},
                                      {'max_concentration': 650}])
    if g.coin(0.3):
        tk['cbmm'] = {'max_concentration': float(g.choice([20.0, 50.0, 200.0]))}
    if g.coin(0.3):
        tk['dist:bingham'] = {'max_concentration': float(g.choice([20.0, 50.0]))}
    return {'prop': 'C08', 'ops': program_ops, 'trainer_kwargs': tk,
            'rng_seed': int(rng.randint(2 ** 31)), 'tier': tier}


# --------------------------------------------------------------------------
# execution
# --------------------------------------------------------------------------

class _T:
    def __init__(self, program):
        self.log = []
        self.violations = []
        self.counters = {}
        self.sets = {}
        self.trainers = {}
        self.tk = program.get('trainer_kwargs', {})
        self.sched = []
        self.compared = 0

    def count(self, k, n=1):
        self.counters[k] = self.counters.get(k, 0) + n

    def add(self, k, v):
        self.sets.setdefault(k, set()).add(v)

    def trainer(self, kind):
        if kind not in self.trainers:
            kw = self.tk.get(kind) or {}
            if kind.startswith('dist:'):
                self.trainers[kind] = catalogue.dist_trainer_class(kind[5:])(**kw)
            else:
                self.trainers[kind] = models.new_trainer(kind, kw)
        return self.trainers[kind]

    def viol(self, oracle, entry, detail, **kw):
        rec = {'property': 'C08', 'oracle': oracle, 'entry': entry,
               'detail': detail}
        rec.update(kw)
        self.violations.append(rec)


def _entry(op):
    k = op['kind'] if 'kind' in op else 'cacg'
    e = k
    if k in ('gmm', 'gcacgmm', 'gaussian'):
        e += ':' + op['opts'].get('covariance_type', 'full' if k != 'gcacgmm' else 'spherical')
    return e


def _eps(kind, opts):
    if kind in ('cacgmm', 'gcacgmm', 'vmfcacgmm'):
        return opts.get('affiliation_eps', 1e-10)
    return opts.get('affiliation_eps', 0)


def _check_gaussian_fixed(gauss, y, gamma, ctype, fixed_cov):
    if fixed_cov is None:
        return S.check_gaussian(gauss, y, gamma, ctype)
    cov = np.asarray(gauss.covariance)
    if cov.shape != np.shape(fixed_cov) or np.max(np.abs(cov - fixed_cov)) > 0:
        return 'fixed_covariance was given but the model does not carry it'
    # mean: compare through a stand-in whose covariance is the spec's own
    lead = gamma.shape[:-2]
    K = gamma.shape[-2]
    mean = np.asarray(gauss.mean)
    for idx in np.ndindex(*lead):
        for k in range(K):
            g = gamma[idx][k]
            mu = (g[:, None] * y[idx]).sum(0) / g.sum()
            d = float(np.max(np.abs(mean[idx + (k,)] - mu)))
            if not d <= S.TOL * max(1.0, float(np.max(np.abs(mu)))):
                return f'Gaussian mean of class {k} at {idx} differs from the ' \
                       f'weighted sample mean by {d:.3e}'
    return None


def _component_check(tr, kind, model, z_obs, emb, gamma, qf, opts, tk,
                     fixed_cov=None):
    """R1 for the component distribution(s) of one reported step."""
    if kind == 'cacgmm':
        return S.check_cacg(model.cacg, z_obs, gamma, qf, opts)
    if kind == 'cwmm':
        mk = tk.get('cwmm') or {}
        tol = 1e-6 if mk.get('spline_markers', 1000) >= 1000 else 1e-4
        return S.check_watson(model.complex_watson, z_obs, gamma,
                              max_concentration=mk.get('max_concentration', 500),
                              ratio_tol=tol, stats=tr.count)
    if kind == 'cbmm':
        mk = tk.get('cbmm') or {}
        return S.check_bingham(model.complex_bingham, z_obs, gamma,
                               max_concentration=mk.get('max_concentration', np.inf),
                               stats=tr.count)
    if kind == 'gmm':
        return _check_gaussian_fixed(model.gaussian, z_obs, gamma,
                                     opts.get('covariance_type', 'full'),
                                     fixed_cov)
    if kind == 'vmfmm':
        return S.check_vmf(model.vmf, z_obs, gamma,
                           opts.get('min_concentration', 1e-10),
                           opts.get('max_concentration', 500), stats=tr.count)
    if kind in models.INTEGRATION:
        m = S.check_cacg(model.cacg, z_obs, gamma, qf, opts)
        if m:
            return m
        F, K, T = gamma.shape
        g2 = np.reshape(np.transpose(gamma, (1, 0, 2)), (K, F * T))
        e2 = np.reshape(emb, (F * T, emb.shape[-1]))
        if kind == 'gcacgmm':
            return _check_gaussian_fixed(model.gaussian, e2, g2,
                                         opts.get('covariance_type', 'spherical'),
                                         fixed_cov)
        return S.check_vmf(model.vmf, e2, g2,
                           opts.get('min_concentration', 1e-10),
                           opts.get('max_concentration', 500), stats=tr.count)
    raise ValueError(kind)


def _bycatch(tr, kind, model, aff):
    """C01 / C09 style monitors: evaluated, never decide the exit code."""
    if not np.all(np.isfinite(aff)) or aff.min() < -1e-12 or aff.max() > 1 + 1e-12:
        tr.count('bycatch:affiliation_out_of_range')
    s = aff.sum(axis=-2)
    if np.max(np.abs(s - 1)) > 1e-5 and np.max(np.abs(s)) > 0:
        tr.count('bycatch:affiliation_not_normalised')
    for name in ('cacg',):
        c = getattr(model, name, None) if hasattr(model, '__dataclass_fields__') \
            and name in model.__dataclass_fields__ else None
        if c is not None:
            V = np.asarray(c.covariance_eigenvectors)
            u = np.max(np.abs(np.swapaxes(V.conj(), -1, -2) @ V - np.eye(V.shape[-1])))
            if u > 1e-6:
                tr.count('bycatch:cacg_eigenvectors_not_unitary')
            if np.any(np.asarray(c.covariance_eigenvalues) <= 0):
                tr.count('bycatch:cacg_eigenvalue_not_positive')


def run_mixfit(tr, op, program):
    kind = op['kind']
    opts = op['opts']
    entry = _entry(op)
    obs = data.make(op['obs'])
    emb = data.make(op['emb']) if 'emb' in op else None
    sal = data.make(op['saliency']) if 'saliency' in op else None
    sam = data.make(op['sam']) if 'sam' in op else None
    init = data.make(op['init']) if 'init' in op else None
    wca = models.as_axis(opts['weight_constant_axis'])
    K, N = op['K'], op['N']
    lead = tuple([op['F']] if op['F'] > 0 else [])
    aff_shape = lead + (K, N)
    trainer = tr.trainer(kind)
    extra = {}
    if sam is not None:
        extra['source_activity_mask'] = sam
    if 'aligner' in op:
        extra['inline_permutation_aligner'] = catalogue.make_aligner(op['aligner'])
    fixed_cov = None
    if 'fixed_covariance' in op:
        fixed_cov = data.make(op['fixed_covariance'])
        extra['fixed_covariance'] = fixed_cov
    # what the component M-steps see as observations
    if kind in models.COMPLEX_OBS or kind == 'vmfmm':
        z = S.unit_rows(np.asarray(obs))
    else:
        z = np.asarray(obs)
    eps = _eps(kind, opts)
    cacg_based = kind in ('cacgmm', 'gcacgmm', 'vmfcacgmm')
    builtin_pa = bool(opts.get('inline_permutation_alignment'))

    start = init
    prev_model = None
    if op['start'] == 'model':
        # a model returned earlier is handed back (continuation)
        try:
            prev_model = models.call_fit(kind, trainer, obs, emb, init,
                                         op['pre_iterations'], opts,
                                         saliency=sal, extra=extra)
        except Exception as e:
            tr.log.append(['mixfit', entry, 'pre-fit raised ' + type(e).__name__])
            tr.sched.append(('mixfit', entry, 'prefit-raised'))
            return
        start = prev_model

    reports = []

    def observer(trainer_, iteration, model, affiliation, **st):
        if trainer_ is not trainer:
            return
        qf = st.get('quadratic_form')
        reports.append((iteration, model, np.array(affiliation, copy=True),
                        None if qf is None else np.array(qf, copy=True)))
        f = op.get('fault')
        if f and f['kind'] == 'cancel' and iteration == f['at']:
            raise SimulatedCancel()

    fault = op.get('fault')
    outcome, returned, fired = 'ok', None, None
    seams.rng_seed(program['rng_seed'])
    try:
        with seams.observe(observer):
            if fault and fault['kind'] == 'lapack':
                with seams.lapack_shim({fault['func']: [fault['k']]}) as shim:
                    try:
                        returned = models.call_fit(
                            kind, trainer, obs, emb, start, op['iterations'],
                            opts, saliency=sal, num_classes=K, extra=extra,
                            method=op.get('method', 'fit'))
                    finally:
                        fired = shim.fired[0] if shim.fired else None
            else:
                returned = models.call_fit(
                    kind, trainer, obs, emb, start, op['iterations'], opts,
                    saliency=sal, num_classes=K, extra=extra,
                    method=op.get('method', 'fit'))
    except SimulatedCancel:
        outcome = 'cancelled'
        tr.count('fault_fired:cancel')
    except Exception as e:
        outcome = 'raised:' + type(e).__name__
        tr.count('library_exception')
        tr.add('library_exceptions', f'{entry}:{type(e).__name__}')
    if fired:
        tr.count('fault_fired:lapack')
        tr.add('lapack_fault_sites', f'{fired[0]}@{fired[2]}')
        if outcome == 'ok':
            tr.count('probe:lapack_fault_absorbed_fit_returned')
    elif fault and fault['kind'] == 'lapack':
        tr.count('fault_configured_not_reached:lapack')
    tr.count('mixfits')
    tr.add('mixfit_entries', entry)
    tr.sched.append(('mixfit', entry, op['K'], op['D'], op['F'],
                     sorted((k, str(v)) for k, v in opts.items()),
                     op['start'], 'sal' if sal is not None else '',
                     'sam' if sam is not None else '',
                     op.get('aligner', {}).get('kind', ''),
                     fired[0] if fired else '', outcome.split(':')[0]))
    fault_note = {'fault': fault, 'fault_fired': list(fired) if fired else None}

    # ---- R0 schedule
    if outcome == 'ok':
        if [r[0] for r in reports] != list(range(op['iterations'])):
            tr.viol('R0', entry, f'fit(iterations={op["iterations"]}) reported '
                    f'steps {[r[0] for r in reports]}', **fault_note)
            return
        last = reports[-1][1]
        from . import digest as dg
        if op.get('method') == 'fit_predict':
            exp = models.bayes_posterior(kind, last, obs, emb)
            p_tol = _posterior_tolerance(kind, last, obs, emb, None, 0.0, exp)
            if p_tol is None:
                tr.count('probe:estep_not_judged_ill_conditioned')
            elif isinstance(returned, np.ndarray) and returned.shape == exp.shape \
                    and not (np.all(np.isfinite(exp))
                             and np.all(np.isfinite(returned))):
                # a class lost all its mass (non-finite model): whether that
                # may happen is C01 / C09, the posterior is undefined
                tr.count('probe:non_finite_state_fit_not_judged_further')
            elif not isinstance(returned, np.ndarray) or returned.shape != exp.shape \
                    or not np.max(np.abs(returned - exp)) <= p_tol:
                tr.viol('R0', entry, 'fit_predict does not return the Bayes '
                        'posterior of the model of the last EM step',
                        **fault_note)
                return
            tr.count('fit_predict_comparisons')
            returned = None
        elif returned is not last and dg.first_difference(returned, last, 'model'):
            tr.viol('R0', entry, 'the returned model is not the model of the '
                    'last EM step: ' + dg.first_difference(returned, last, 'model'),
                    **fault_note)
            return
    elif outcome.startswith('raised') and not fired and not reports:
        tr.log.append(['mixfit', entry, outcome])
        return

    sal_b = None if sal is None else np.asarray(sal)
    for i, (iteration, model, aff, qf) in enumerate(reports):
        tr.count('em_steps')
        w_now = np.asarray(models.broadcast_weight(kind, model, aff_shape)) \
            if aff.shape == aff_shape else np.zeros(1)
        if not (np.all(np.isfinite(aff)) and np.all(np.isfinite(w_now))
                and (qf is None or np.all(np.isfinite(qf)))):
            # non-finite state (e.g. every posterior of a tied group
            # underflowed, 0/0 weights): whether that may happen is C01 / C09;
            # the estimator formulas say nothing about it
            tr.count('probe:non_finite_state_fit_not_judged_further')
            break
        if aff.shape != aff_shape:
            tr.viol('R0', entry, f'affiliation shape {aff.shape} at step {i}, '
                    f'expected {aff_shape}', **fault_note)
            return
        # ---- R2 / R3: where does affiliation_i (and qf_i) come from?
        if prev_model is None:
            if op['start'] == 'array':
                exp = np.broadcast_to(np.asarray(init, dtype=float), aff_shape)
                if np.max(np.abs(np.asarray(aff, dtype=float) - exp)) > 0:
                    tr.viol('R0', entry, 'step 0 does not start from the given '
                            'initial affiliation', **fault_note)
                    return
            else:
                s = aff.sum(axis=-2)
                if aff.min() < 0 or np.max(np.abs(s - 1)) > 1e-9:
                    tr.viol('R0', entry, 'random start is not a distribution '
                            'over the classes', **fault_note)
                    return
            if cacg_based and (qf is None or np.max(np.abs(qf - 1)) > 0):
                tr.viol('R0', entry, 'first M-step does not use unit quadratic '
                        'forms', **fault_note)
                return
        else:
            msg = _check_estep(tr, kind, prev_model, obs, emb, z, aff, qf, sam,
                               eps, op, cacg_based, builtin_pa)
            if msg:
                tr.viol('R2' if 'permut' not in msg else 'R3', entry,
                        f'step {i}: ' + msg, step=i, **fault_note)
                return
            tr.count('estep_comparisons')
        # ---- R1
        if i == 0 and prev_model is None and (
                aff.dtype != np.float64
                or op.get('init', {}).get('dtype') == 'float32'):
            # a single-precision start is used as it is: the first M-step is
            # then computed (partly) in single precision and cannot be held
            # to 1e-8; the alternation is checked from the next step on
            tr.count('probe:first_mstep_not_judged_low_precision_start')
            prev_model = model
            continue
        gamma = aff if sal_b is None else aff * sal_b[..., None, :]
        mass = gamma.sum(axis=-1)
        if kind in models.INTEGRATION:
            mass_emb = gamma.sum(axis=(0, 2))
        else:
            mass_emb = mass
        if not np.all(np.isfinite(mass)) or np.min(mass) <= 1e-100 * max(
                float(np.max(mass)), 1e-300) or np.min(mass_emb) <= 0:
            # the property quantifies over classes with positive weighted
            # mass; a class that died out has no defined estimator
            tr.count('probe:class_without_mass_fit_not_judged_further')
            break
        slack = 2 * K * eps
        w = models.broadcast_weight(kind, model, aff_shape)
        msg = S.check_weights(w, aff, sal_b, wca, slack=slack)
        if msg is None:
            msg = _component_check(tr, kind, model, z, emb, gamma,
                                   qf if qf is not None else None, opts, tr.tk,
                                   fixed_cov)
        if msg:
            oracle = 'R1'
            if msg.startswith('NEARDUP: '):
                oracle, msg = 'R1-bingham-near-duplicate-scatter', msg[9:]
            tr.viol(oracle, entry, f'step {i}: ' + msg, step=i, **fault_note)
            return
        tr.count('mstep_comparisons')
        tr.compared += 1
        _bycatch(tr, kind, model, aff)
        prev_model = model
    tr.log.append(['mixfit', entry, outcome, len(reports),
                   None if returned is None else __import__('sim.digest', fromlist=['x']).digest(returned)])


def _posterior_tolerance(kind, model, obs, emb, sam=None, eps=0.0, exp=None):
    """1e-10 + 1000 x the effect of a +-1 ulp perturbation of the inputs on
    the Bayes posterior of ``model`` (conditioning allowance)."""
    if exp is None:
        exp = models.bayes_posterior(kind, model, obs, emb,
                                     source_activity_mask=sam,
                                     affiliation_eps=eps)
    sign = 1.0 - 2.0 * (np.arange(obs.size).reshape(obs.shape) % 2)
    obs_p = np.asarray(obs) * (1 + 2.3e-16 * sign)
    emb_p = None if emb is None else np.asarray(emb) * (
        1 + 2.3e-16 * (1.0 - 2.0 * (np.arange(emb.size).reshape(emb.shape) % 2)))
    exp_p = models.bayes_posterior(kind, model, obs_p, emb_p,
                                   source_activity_mask=sam, affiliation_eps=eps)
    with np.errstate(invalid='ignore'):
        cond = float(np.nanmax(np.abs(exp - exp_p))) if exp.size else 0.0
    a_tol = 1e-10 + 1000 * (cond if np.isfinite(cond) else 0.0)
    if a_tol > 1e-3:
        # the posterior is so ill-conditioned (e.g. no eigenvalue floor and
        # nearly coherent data) that Bayes' rule cannot be checked to any
        # useful tolerance: the caller does not judge this E-step
        return None
    S.note('estep_conditioning_allowance', a_tol, 1e-3)
    return a_tol


def _check_estep(tr, kind, prev_model, obs, emb, z, aff, qf, sam, eps, op,
                 cacg_based, builtin_pa):
    q_exp = S.quadratic_form(prev_model.cacg, z) if cacg_based else None
    if cacg_based:
        # rounding of z^H V diag(1/lambda) V^H z grows with 1/lambda_min
        q_tol = 1e-9 * np.abs(q_exp) + 1e-13 * np.sum(
            1.0 / np.asarray(prev_model.cacg.covariance_eigenvalues),
            axis=-1)[..., None]
    if builtin_pa:
        # built-in alignment of the integration models: Bayes posterior for
        # SOME per-bin permutation of the spatial stream
        import itertools
        F, K, T = aff.shape
        E = emb.shape[-1]
        spatial = prev_model.spatial_weight * prev_model.cacg.log_pdf(obs[..., None, :, :])
        dist = prev_model.gaussian if kind == 'gcacgmm' else prev_model.vmf
        spectral = dist.log_pdf(np.reshape(emb, (1, F * T, E)))
        spectral = prev_model.spectral_weight * np.transpose(
            np.reshape(spectral, (K, F, T)), (1, 0, 2))
        w = models.broadcast_weight(kind, prev_model, aff.shape)
        a_tol = _posterior_tolerance(kind, prev_model, obs, emb, None, eps)
        if a_tol is None:
            tr.count('probe:estep_not_judged_ill_conditioned')
            return None
        nonid = False
        for f in range(F):
            ok = None
            for p in itertools.permutations(range(K)):
                p = list(p)
                lp = spatial[f][p] + spectral[f]
                a = np.exp(lp - lp.max(axis=-2, keepdims=True)) * w[f]
                a = a / np.maximum(a.sum(axis=-2, keepdims=True), np.finfo(float).tiny)
                if eps:
                    a = np.clip(a, eps, 1 - eps)
                if np.max(np.abs(a - aff[f])) <= a_tol:
                    ok = p
                    break
            if ok is None:
                return f'bin {f}: affiliation is not the Bayes posterior of ' \
                       f'the previous model for any permutation of the spatial stream'
            if ok != list(range(K)):
                nonid = True
            qa = np.abs(qf[f] - q_exp[f]) <= q_tol[f]
            qb = np.abs(qf[f] - q_exp[f][ok]) <= q_tol[f][ok]
            if not (np.all(qa) or np.all(qb)):
                return f'bin {f}: quadratic form is not z^H B^-1 z of the previous model'
        if nonid:
            tr.count('probe:builtin_alignment_nonidentity')
        return None
    exp = models.bayes_posterior(kind, prev_model, obs, emb,
                                 source_activity_mask=sam, affiliation_eps=eps)
    if exp.shape != aff.shape:
        return f'posterior shape {aff.shape} vs {exp.shape}'
    a_tol = _posterior_tolerance(kind, prev_model, obs, emb, sam, eps, exp)
    if a_tol is None:
        tr.count('probe:estep_not_judged_ill_conditioned')
        return None
    if 'aligner' in op:
        msg, res = S.find_common_permutation(
            exp, aff, q_exp, qf, atol=a_tol,
            q_tol=q_tol if cacg_based else None)
        if msg:
            return msg
        if not res[1]:
            tr.count('probe:inline_aligner_nonidentity')
        # ... and it is the permutation the configured aligner computes on
        # the Bayes posterior ("after the optional inline alignment"): an
        # alignment that is skipped is not an alignment.  (What the aligner
        # computes is C14/C16; here only that it is applied.)
        # The aligner's decisions are discrete; feed it exactly the bits the
        # implementation fed it: the reported (aligned) posterior with the
        # found permutation undone.  Skipped when two class rows of a bin
        # are closer than the matching tolerance (permutation ambiguous).
        F_, K_, _ = exp.shape
        for f in range(F_):
            for i in range(K_):
                for j in range(i + 1, K_):
                    if np.max(np.abs(exp[f][i] - exp[f][j])) <= 1e-8:
                        tr.count('probe:aligner_comparison_skipped_ambiguous')
                        return None
        pre = np.empty_like(aff)
        for f, p in enumerate(res[0]):
            pre[f][p] = aff[f]
        al = catalogue.make_aligner(op['aligner'])
        kft = np.transpose(pre, (1, 0, 2))
        noise = np.random.RandomState(0).standard_normal(kft.shape)
        variants = [kft, np.ascontiguousarray(kft), np.asfortranarray(kft),
                    kft * (1 + 1e-13 * noise), kft * (1 - 1e-13 * noise)]
        maps = [al.calculate_mapping(v) for v in variants]
        if any(not np.array_equal(maps[0], m) for m in maps[1:]):
            # tied scores: the aligner's decision depends on rounding /
            # memory layout of its input, which the hook does not expose
            tr.count('probe:aligner_comparison_skipped_tie')
            return None
        mapping = maps[0]
        for f, p_found in enumerate(res[0]):
            p_want = [int(x) for x in mapping[:, f]]
            if list(p_found) != p_want:
                return (f'bin {f}: the inline permutation aligner maps the '
                        f'posterior with {p_want} but the E-step result '
                        f'corresponds to {list(p_found)} (alignment skipped or '
                        f'applied differently)')
        tr.count('aligner_mapping_comparisons')
        return None
    d = float(np.max(np.abs(exp - aff)))
    S.note('estep_affiliation', d, a_tol)
    if not d <= a_tol:
        return f'affiliation differs from the Bayes posterior of the previous ' \
               f'model (pi_k p_k / sum, mask, clip) by {d:.3e}'
    if cacg_based:
        S.note('estep_quadratic_form', float(np.max(np.abs(qf - q_exp) / q_tol)), 1.0)
        if not np.all(np.abs(qf - q_exp) <= q_tol):
            r = float(np.max(np.abs(qf - q_exp) / np.abs(q_exp)))
            return f'quadratic form differs from z^H B^-1 z of the previous ' \
                   f'model by {r:.3e} (relative)'
    return None


# ---- stand-alone trainers ---------------------------------------------------

class _NS:
    def __init__(self, **kw):
        self.__dict__.update(kw)


def run_distfit(tr, op, program):
    kind = op['kind']
    entry = 'trainer:' + _entry(op)
    y = data.make(op['y'])
    sal = data.make(op['saliency']) if 'saliency' in op else None
    trainer = tr.trainer('dist:' + kind)
    kw = dict(op['opts'])
    if sal is not None:
        kw['saliency'] = models._lib(sal)
    fault = op.get('fault')
    fired = None
    try:
        if fault:
            with seams.lapack_shim({fault['func']: [fault['k']]}) as shim:
                try:
                    model = trainer.fit(models._lib(y), **kw)
                finally:
                    fired = shim.fired[0] if shim.fired else None
        else:
            model = trainer.fit(models._lib(y), **kw)
    except Exception as e:
        tr.count('library_exception')
        tr.add('library_exceptions', f'{entry}:{type(e).__name__}')
        tr.log.append(['distfit', entry, 'raised:' + type(e).__name__])
        tr.sched.append(('distfit', entry, 'raised', bool(fired)))
        if fired:
            tr.count('fault_fired:lapack')
        return
    if fired:
        tr.count('fault_fired:lapack')
        tr.add('lapack_fault_sites', f'{fired[0]}@{fired[2]}')
        tr.count('probe:lapack_fault_absorbed_fit_returned')
    tr.count('distfits')
    tr.add('distfit_entries', entry)
    tr.sched.append(('distfit', entry, op['D'], 'sal' if sal is not None else '',
                     len(op['y']['shape']), bool(fired)))
    lead = tuple(op['y']['shape'][:-2])
    N = op['y']['shape'][-2]
    gamma = (np.ones(lead + (N,)) if sal is None else np.asarray(sal, dtype=float))
    gamma = np.broadcast_to(gamma, lead + (N,))[..., None, :]
    fault_note = {'fault': fault, 'fault_fired': list(fired) if fired else None}
    msg = _dist_check(tr, kind, model, np.asarray(y), gamma, op['opts'])
    if msg:
        oracle = 'R1'
        if msg.startswith('NEARDUP: '):
            oracle, msg = 'R1-bingham-near-duplicate-scatter', msg[9:]
        tr.viol(oracle, entry, msg, **fault_note)
        return
    tr.compared += 1
    tr.count('standalone_estimator_comparisons')
    if op.get('repetition') and sal is not None:
        # integer saliency == repeating the observations
        reps = np.asarray(sal).astype(int)
        y_rep = np.repeat(np.asarray(y), reps, axis=-2)
        y_rep.setflags(write=False)
        try:
            m2 = catalogue.dist_trainer_class(kind)(
                **(tr.tk.get('dist:' + kind) or {})).fit(models._lib(y_rep), **op['opts'])
        except Exception as e:
            tr.log.append(['distfit-rep', entry, 'raised:' + type(e).__name__])
            return
        msg = _dist_check(tr, kind, m2, np.asarray(y), gamma, op['opts'])
        if msg:
            tr.viol('repetition', entry, 'integer saliency does not act like '
                    'repeating the observations: ' + msg)
            return
        tr.count('repetition_comparisons')
    from . import digest as dg
    tr.log.append(['distfit', entry, dg.digest(model)])


def _dist_check(tr, kind, model, y, gamma, opts):
    """gamma: (..., 1, N)"""
    if kind == 'gaussian':
        ct = opts.get('covariance_type', 'full')
        ns = _NS(mean=np.asarray(model.mean)[..., None, :],
                 covariance={'full': lambda c: c[..., None, :, :],
                             'diagonal': lambda c: c[..., None, :],
                             'spherical': lambda c: c[..., None]}[ct](
                     np.asarray(model.covariance)))
        return S.check_gaussian(ns, y, gamma, ct)
    if kind == 'ccsg':
        cov = np.asarray(model.covariance)
        for idx in np.ndindex(*gamma.shape[:-2]):
            g = gamma[idx][0]
            C = np.zeros(cov.shape[-2:], dtype=complex)
            for n in range(y.shape[-2]):
                C += g[n] * np.outer(y[idx][n], y[idx][n].conj())
            C /= g.sum()
            r = S._rel(cov[idx], C)
            if not r <= S.TOL:
                return f'complex Gaussian covariance at {idx} differs from the ' \
                       f'weighted outer-product mean by {r:.3e}'
        return None
    if kind == 'vmf':
        ns = _NS(mean=np.asarray(model.mean)[..., None, :],
                 concentration=np.asarray(model.concentration)[..., None])
        return S.check_vmf(ns, S.unit_rows(y), gamma,
                           opts.get('min_concentration', 1e-10),
                           opts.get('max_concentration', 500), stats=tr.count)
    if kind == 'watson':
        mk = tr.tk.get('dist:watson') or {}
        ns = _NS(mode=np.asarray(model.mode)[..., None, :],
                 concentration=np.asarray(model.concentration)[..., None])
        return S.check_watson(
            ns, S.unit_rows(y), gamma,
            max_concentration=mk.get('max_concentration', 500),
            ratio_tol=1e-6 if mk.get('spline_markers', 1000) >= 1000 else 1e-4,
            stats=tr.count)
    if kind == 'bingham':
        ns = _NS(covariance_eigenvectors=np.asarray(model.covariance_eigenvectors)[..., None, :, :],
                 covariance_eigenvalues=np.asarray(model.covariance_eigenvalues)[..., None, :])
        mk = tr.tk.get('dist:bingham') or {}
        return S.check_bingham(ns, S.unit_rows(y), gamma,
                               max_concentration=mk.get('max_concentration', np.inf),
                               stats=tr.count)
    raise ValueError(kind)


def run_tyler(tr, op, program):
    from pb_bss.distribution import ComplexAngularCentralGaussianTrainer
    entry = 'trainer:cacg'
    y = data.make(op['y'])
    z = S.unit_rows(np.asarray(y))
    N, D = z.shape
    opts = op['opts']
    trainer = tr.trainer('dist:cacg')
    try:
        model = trainer.fit(models._lib(y), iterations=op['iterations'], **opts)
    except Exception as e:
        tr.count('library_exception')
        tr.add('library_exceptions', f'{entry}:{type(e).__name__}')
        tr.sched.append(('tyler', 'raised'))
        return
    tr.count('tyler_fits')
    tr.sched.append(('tyler', D, op['iterations'],
                     sorted((k, str(v)) for k, v in opts.items()),
                     op['fixed_point']))
    q = np.ones(N)
    ones = np.ones(N)
    C = None
    for _ in range(op['iterations']):
        C = S.spec_cacg_covariance(
            z, ones, q, hermitize=opts.get('hermitize', True),
            covariance_norm=opts.get('covariance_norm', 'eigenvalue'),
            eigenvalue_floor=opts.get('eigenvalue_floor', 1e-10))
        lam_, V_ = np.linalg.eigh(C)
        if lam_.min() <= 0:
            tr.count('probe:tyler_singular_not_judged')
            return
        q = np.einsum('ne,e->n', np.abs(z.conj() @ V_) ** 2, 1.0 / lam_)
    Cm = S.impl_cacg_covariance(model, ())
    r = S._rel(Cm, C)
    S.note('tyler_n_steps', r, 1e-7)
    if not r <= 1e-7:
        tr.viol('R1', entry, f'fit(iterations={op["iterations"]}) differs from '
                f'{op["iterations"]} eigenvalue-normalised Tyler steps by {r:.3e}')
        return
    if op['iterations'] == 1:
        # eigenvalue by eigenvalue (the floor is invisible in the matrix norm)
        li = np.sort(np.asarray(model.covariance_eigenvalues, dtype=float))
        ls = np.linalg.eigvalsh(C)
        tol_e = 1e-6 * np.abs(ls) + 1e-12 * float(np.max(np.abs(ls)))
        if not np.all(np.abs(li - ls) <= tol_e):
            tr.viol('R1', entry, f'eigenvalues {li} of the fitted cACG differ '
                    f'from the floored eigenvalues {ls} of the Tyler step')
            return
    tr.compared += 1
    tr.count('tyler_comparisons')
    if op['fixed_point']:
        try:
            m2 = ComplexAngularCentralGaussianTrainer().fit(models._lib(y), iterations=300, **opts)
        except Exception:
            return
        C2 = S.impl_cacg_covariance(m2, ())
        q2 = np.einsum('nd,de,ne->n', z.conj(), np.linalg.inv(C2), z).real
        T = S.spec_cacg_covariance(
            z, ones, q2, hermitize=True,
            covariance_norm=opts.get('covariance_norm', 'eigenvalue'),
            eigenvalue_floor=1e-10)
        lam = np.linalg.eigvalsh(C2)
        tr.count('tyler_fixed_point_checks')
        if lam[0] > 1e-6 * lam[-1]:
            r = S._rel(T, C2)
            S.note('tyler_fixed_point', r, 1e-5)
            if not r <= 1e-5:
                tr.viol('fixed_point', entry, f'300 Tyler iterations are not at the '
                        f'fixed point B ~ (D/N) sum z z^H / (z^H B^-1 z): residual {r:.3e}')
    tr.log.append(['tyler', op['iterations'], float(r).hex()])


def _param_difference(kind, a, b, opts):
    """Representation-independent comparison of two fitted mixture models."""
    out = []
    if kind in ('cacgmm', 'gcacgmm', 'vmfcacgmm'):
        Ca = np.asarray(a.cacg.covariance)
        Cb = np.asarray(b.cacg.covariance)
        na = np.trace(Ca, axis1=-2, axis2=-1).real[..., None, None]
        nb = np.trace(Cb, axis1=-2, axis2=-1).real[..., None, None]
        out.append(('cACG covariance', S._rel(Ca / na, Cb / nb)))
    if kind == 'cwmm':
        ma, mb = np.asarray(a.complex_watson.mode), np.asarray(b.complex_watson.mode)
        c = np.abs(np.sum(ma.conj() * mb, axis=-1))
        out.append(('Watson mode', float(np.max(np.abs(c - 1)))))
        ca, cb = np.asarray(a.complex_watson.concentration), np.asarray(b.complex_watson.concentration)
        out.append(('Watson concentration', float(np.max(np.abs(ca - cb) / np.maximum(1, np.abs(cb))) * 1e-2)))
    if kind in ('gmm', 'gcacgmm'):
        out.append(('Gaussian mean', float(np.max(np.abs(np.asarray(a.gaussian.mean) - np.asarray(b.gaussian.mean))))))
        out.append(('Gaussian covariance', S._rel(a.gaussian.covariance, b.gaussian.covariance)))
    if kind in ('vmfmm', 'vmfcacgmm'):
        out.append(('vMF mean', float(np.max(np.abs(np.asarray(a.vmf.mean) - np.asarray(b.vmf.mean))))))
        out.append(('vMF concentration', S._rel(a.vmf.concentration, b.vmf.concentration)))
    return out


def run_repetition(tr, op, program):
    kind = op['kind']
    opts = op['opts']
    entry = _entry(op)
    obs = np.asarray(data.make(op['obs']))
    emb = np.asarray(data.make(op['emb'])) if 'emb' in op else None
    init = np.asarray(data.make(op['init']))
    s = np.asarray(data.make(op['saliency'])).astype(int)        # (N,)
    lead = [op['F']] if op['F'] > 0 else []
    sal = np.broadcast_to(s.astype(float), tuple(lead) + s.shape)
    sal = np.array(sal)
    sal.setflags(write=False)
    obs_r = np.repeat(obs, s, axis=-2)
    emb_r = np.repeat(emb, s, axis=-2) if emb is not None else None
    init_r = np.repeat(init, s, axis=-1)
    for x in (obs_r, emb_r, init_r):
        if x is not None:
            x.setflags(write=False)
    tr.sched.append(('repetition', entry, op['K'], op['D'], op['F'],
                     sorted((k, str(v)) for k, v in opts.items())))
    try:
        a = models.call_fit(kind, tr.trainer(kind), obs, emb, init,
                            op['iterations'], opts, saliency=sal)
        b = models.call_fit(kind, models.new_trainer(kind, tr.tk.get(kind)),
                            obs_r, emb_r, init_r, op['iterations'], opts)
    except Exception as e:
        tr.count('library_exception')
        tr.add('library_exceptions', f'{entry}:{type(e).__name__}')
        return
    tr.count('repetition_fits')
    if kind in ('cacgmm', 'gcacgmm', 'vmfcacgmm'):
        ev = np.asarray(a.cacg.covariance_eigenvalues)
        if np.any(ev.min(axis=-1) < 1e-6 * ev.max(axis=-1)):
            tr.count('probe:repetition_skipped_floor_guard')
            return
    for name, d in _param_difference(kind, a, b, opts):
        S.note('repetition:' + name, d, 1e-6)
        if not d <= 1e-6:
            tr.viol('repetition', entry, f'integer saliency vs repeated '
                    f'observations after {op["iterations"]} iterations: {name} '
                    f'differs by {d:.3e}')
            return
    wa = np.asarray(a.weight, dtype=float)
    wb = np.asarray(b.weight, dtype=float)
    if wa.shape == wb.shape and wa.size:
        d = float(np.max(np.abs(wa - wb)))
        if not d <= 1e-6:
            tr.viol('repetition', entry, f'integer saliency vs repeated '
                    f'observations: mixture weights differ by {d:.3e}')
            return
    tr.compared += 1
    tr.count('repetition_comparisons')
    tr.log.append(['repetition', entry, 'ok'])


RUNNERS = {'mixfit': run_mixfit, 'distfit': run_distfit, 'tyler': run_tyler,
           'repetition': run_repetition}


def execute(program):
    models.COPY_INPUTS = True
    tr = _T(program)
    S.MARGINS.clear()
    for op in program['ops']:
        try:
            RUNNERS[op['op']](tr, op, program)
        except Exception as e:
            # an exception raised by library code that an oracle calls (the
            # components' log_pdf, an aligner) is an explicit library
            # exception: no verdict.  Anything else is a harness error.
            import traceback
            from . import env
            tb = traceback.extract_tb(e.__traceback__)
            if not tb or not tb[-1].filename.startswith(env.PKG_DIR):
                raise
            tr.count('library_exception_inside_oracle')
            tr.add('library_exceptions', f'oracle:{type(e).__name__}')
            break
        if tr.violations:
            break
    tr.count('ops', len(program['ops']))
    sig = hashlib.sha1(repr(tr.sched).encode()).hexdigest()[:16]
    digest = hashlib.sha256(json.dumps(tr.log, default=str).encode()).hexdigest()[:24]
    return {'digest': digest, 'signature': sig, 'nontrivial': tr.compared >= 1,
            'maxes': dict(S.MARGINS),
            'counters': tr.counters,
            'sets': {k: sorted(v) for k, v in tr.sets.items()},
            'violations': tr.violations}


# --------------------------------------------------------------------------
# shrinking
# --------------------------------------------------------------------------

def shrink_candidates(program):
    ops_ = program['ops']
    for i in reversed(range(len(ops_))):
        if len(ops_) > 1:
            q = copy.deepcopy(program)
            del q['ops'][i]
            yield q
    if program.get('trainer_kwargs'):
        q = copy.deepcopy(program)
        q['trainer_kwargs'] = {}
        yield q
    for i, op in enumerate(ops_):
        if op.get('fault'):
            q = copy.deepcopy(program)
            q['ops'][i]['fault'] = None
            yield q
        if isinstance(op.get('iterations'), int) and op['iterations'] > 1:
            for m in sorted({1, op['iterations'] // 2, op['iterations'] - 1}):
                if 1 <= m < op['iterations']:
                    q = copy.deepcopy(program)
                    q['ops'][i]['iterations'] = m
                    yield q
        for key in ('saliency', 'sam', 'aligner'):
            if key in op and op['op'] != 'repetition':
                q = copy.deepcopy(program)
                del q['ops'][i][key]
                yield q
        if op.get('start') == 'model':
            q = copy.deepcopy(program)
            q['ops'][i]['start'] = 'array'
            yield q
        for k in list(op.get('opts', {})):
            if k in ('weight_constant_axis', 'covariance_type'):
                continue
            q = copy.deepcopy(program)
            del q['ops'][i]['opts'][k]
            yield q
        if op.get('opts', {}).get('weight_constant_axis') not in (None, [-1]) \
                and 'aligner' not in op:
            q = copy.deepcopy(program)
            q['ops'][i]['opts']['weight_constant_axis'] = [-1]
            yield q
        for k, v in op.items():
            if isinstance(v, dict) and v.get('layout', 'C') != 'C':
                q = copy.deepcopy(program)
                q['ops'][i][k]['layout'] = 'C'
                yield q


# --------------------------------------------------------------------------
# fixed catalogue: every LAPACK call index of a set of fits fails once
# --------------------------------------------------------------------------

def _fixed_programs(tier):
    rng = np.random.RandomState(8081)
    g = catalogue.G(rng, [2, 3, 4], False)
    progs = []
    n_cfg = 2 if tier == 'quick' else 6
    for kind in models.MIXTURES:
        for _ in range(n_cfg):
            op = gen_mixfit(g, kind)
            op['iterations'] = min(op['iterations'], 4)
            progs.append(op)
    for _ in range(n_cfg * 3):
        progs.append(gen_distfit(g))
    return progs


def _count_lapack(op):
    program = {'prop': 'C08', 'ops': [dict(op, fault=None)],
               'trainer_kwargs': {}, 'rng_seed': 1}
    with seams.lapack_shim({}) as shim:
        execute(program)
    return dict(shim.counts)


def _enum_lapack_worker(op, func, ks):
    from . import driver
    if 'ok' not in driver._INIT:
        driver._worker_init()
    out = []
    for k in ks:
        o = dict(op, fault={'kind': 'lapack', 'func': func, 'k': int(k)})
        program = {'prop': 'C08', 'ops': [o], 'trainer_kwargs': {},
                   'rng_seed': 1, 'tier': 'enum'}
        r = execute(program)
        out.append((func, k, r['violations'], r['counters'], program))
    return out


def _count_lapack_worker(op):
    from . import driver
    if 'ok' not in driver._INIT:
        driver._worker_init()
    return _count_lapack(op)


def fixed_catalogue(tier, workers, log):
    import time
    from . import driver
    t0 = time.time()
    progs = _fixed_programs(tier)
    violations = []
    total = fired = absorbed = 0
    per_func = {}
    with driver.make_pool(workers) as pool:
        counts = list(pool.map(_count_lapack_worker, progs))
        futs = []
        for op, cnt in zip(progs, counts):
            for func, n in cnt.items():
                if n:
                    futs.append(pool.submit(_enum_lapack_worker, op, func,
                                            list(range(n))))
        for f in futs:
            for func, k, viols, counters, program in f.result():
                total += 1
                per_func[func] = per_func.get(func, 0) + 1
                fired += counters.get('fault_fired:lapack', 0)
                absorbed += counters.get('probe:lapack_fault_absorbed_fit_returned', 0)
                for v in viols:
                    violations.append((-1, program, v))
    log(f'# C08 fixed catalogue: {len(progs)} fits, every LAPACK call index '
        f'failed once: {total} fault positions ({per_func}), {fired} fired, '
        f'{absorbed} absorbed by a fallback and checked, '
        f'{len(violations)} violations, {time.time() - t0:.1f}s')
    return {'coverage': {'lapack_fault_enumeration': {
        'exhaustive_over': 'every call index of numpy.linalg.{eigh,eig,solve,'
                           'lstsq} issued from pb_bss during each catalogue fit',
        'fits': len(progs), 'fault_positions': total, 'per_function': per_func,
        'fired': fired, 'absorbed_by_fallback_and_checked': absorbed,
        'wall_s': round(time.time() - t0, 1)}},
        'violations': violations}
