"""Process environment: where the repo is, hygiene, source digest."""
import hashlib
import os
import sys

VERIF_HOME = os.environ.get('VERIF_HOME') or os.path.dirname(
    os.path.dirname(os.path.abspath(__file__)))
REPO = os.path.abspath(os.environ.get('VERIF_REPO', '/repo'))
PKG_DIR = os.path.join(REPO, 'pb_bss') + os.sep


def ensure_repo_importable():
    """pb_bss is imported from the working tree ($VERIF_REPO), never from an
    installed copy.  The hook guard must be on before pb_bss is imported."""
    os.environ['PB_BSS_VERIF'] = '1'
    if REPO not in sys.path:
        sys.path.insert(0, REPO)
    import warnings
    warnings.simplefilter('ignore')
    import pb_bss  # noqa
    here = os.path.abspath(os.path.dirname(pb_bss.__file__)) + os.sep
    if here != PKG_DIR:
        raise RuntimeError(f'pb_bss imported from {here}, expected {PKG_DIR}')
    # import everything the catalogue touches now: module-level code must
    # never run inside a traced / fault-injected operation (line counts and
    # hence interrupt positions would depend on import history)
    import pb_bss.distribution  # noqa
    import pb_bss.distribution.complex_bingham  # noqa
    import pb_bss.distribution.complex_bingham_utils  # noqa
    import pb_bss.distribution.mixture_model_utils  # noqa
    import pb_bss.distribution.utils  # noqa
    import pb_bss.extraction  # noqa
    import pb_bss.extraction.beamformer_wrapper  # noqa
    import pb_bss.extraction.mask_module  # noqa
    import pb_bss.permutation_alignment  # noqa
    import pb_bss.evaluation.sxr_module  # noqa
    import pb_bss.evaluation.module_si_sdr  # noqa
    import pb_bss.initializer  # noqa
    import pb_bss.initializer.deflation  # noqa
    import pb_bss.math.solve  # noqa
    import pb_bss.utils  # noqa
    import pb_bss.extraction.beamform_utils  # noqa
    import pb_bss.evaluation.wrapper  # noqa
    # ... and whatever else the package has (optional dependencies missing in
    # this image make some modules fail to import; that is fine)
    import pkgutil
    for m in pkgutil.walk_packages(pb_bss.__path__, 'pb_bss.'):
        if '.testing' in m.name or '.cythonized' in m.name:
            continue
        try:
            __import__(m.name)
        except Exception:   # noqa
            pass
    import scipy.special, scipy.interpolate, scipy.optimize  # noqa
    from pb_bss import _verif
    if not _verif.ENABLED:
        raise RuntimeError('PB_BSS_VERIF hook guard is not enabled')


def source_digest():
    """SHA-1 over the pb_bss sources of the tree under test."""
    h = hashlib.sha1()
    for root, dirs, files in os.walk(PKG_DIR):
        dirs.sort()
        for f in sorted(files):
            if f.endswith('.py'):
                p = os.path.join(root, f)
                h.update(os.path.relpath(p, REPO).encode())
                with open(p, 'rb') as fd:
                    h.update(fd.read())
    return h.hexdigest()
