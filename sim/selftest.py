"""Self-tests of the simulator (DESIGN.md §2.5).

determinism: N run seeds per property are executed twice, in two *fresh
interpreters* with different PYTHONHASHSEED and different worker counts; the
event-log digests must agree seed by seed.
"""
import argparse
import json
import os
import subprocess
import sys

from . import env


def _digests_subprocess(prop, tier, seed, runs, workers, hashseed):
    code = (
        'import sys, json\n'
        'from sim import env; env.ensure_repo_importable()\n'
        'from sim import driver\n'
        f'agg, wall, dig = driver.run_batch({prop!r}, {tier!r}, {seed}, 1e9, {runs}, {workers})\n'
        'print("DIGESTS " + json.dumps({"d": {str(k): v for k, v in dig.items()}, '
        '"he": len(agg.harness_errors), "v": len(agg.violations)}))\n'
    )
    e = dict(os.environ)
    e['PYTHONHASHSEED'] = str(hashseed)
    out = subprocess.run([sys.executable, '-c', code], env=e, cwd=env.VERIF_HOME,
                         capture_output=True, text=True, timeout=3600)
    for line in out.stdout.splitlines():
        if line.startswith('DIGESTS '):
            return json.loads(line[8:])
    raise RuntimeError('no digests: ' + out.stdout[-2000:] + out.stderr[-2000:])


def determinism(props, tier, seed, runs):
    bad = 0
    for prop in props:
        a = _digests_subprocess(prop, tier, seed, runs, 16, 0)
        b = _digests_subprocess(prop, tier, seed, runs, 5, 0)
        diff = [k for k in a['d'] if a['d'][k] != b['d'].get(k)]
        missing = set(a['d']) ^ set(b['d'])
        print(f'determinism {prop}: {len(a["d"])} seeds x 2 fresh interpreters '
              f'(16 / 5 workers, PYTHONHASHSEED=0 as fixed by bin/vcheck): '
              f'{len(diff)} digests differ, {len(missing)} missing, '
              f'harness errors {a["he"]}/{b["he"]}, violations {a["v"]}/{b["v"]}')
        for k in diff[:10]:
            print('  DIFF run_seed', k, a['d'][k], b['d'].get(k))
        bad += len(diff) + len(missing) + a['he'] + b['he']
        # informational: another hash seed.  numpy.einsum(optimize=...) builds
        # its contraction order from Python sets, so the last bits of some
        # results (and with them the digests) depend on PYTHONHASHSEED; the
        # verdicts must not.
        c = _digests_subprocess(prop, tier, seed, runs, 16, 12345)
        diff_c = [k for k in a['d'] if a['d'][k] != c['d'].get(k)]
        print(f'  hash-seed sensitivity (PYTHONHASHSEED=12345): {len(diff_c)} of '
              f'{len(a["d"])} digests differ (expected: a few, from '
              f'numpy.einsum path ordering); violations {c["v"]}, '
              f'harness errors {c["he"]}')
        bad += c['he'] + abs(c['v'] - a['v'])
    return 1 if bad else 0


def main(argv):
    ap = argparse.ArgumentParser(prog='vcheck selftest')
    ap.add_argument('what', choices=['determinism'])
    ap.add_argument('--props', default='C02,C08,C20')
    ap.add_argument('--tier', default='quick')
    ap.add_argument('--seed', type=int, default=int(os.environ.get('VERIF_SEED') or 0))
    ap.add_argument('--runs', type=int, default=200)
    a = ap.parse_args(argv)
    env.ensure_repo_importable()
    from . import driver
    props = [p for p in a.props.split(',') if p in driver.MODULES]
    props = [p for p in props if os.path.exists(
        os.path.join(env.VERIF_HOME, 'sim', p.lower() + '.py'))]
    return determinism(props, a.tier, a.seed, a.runs)
