"""C02 -- EM iterations never decrease the mixture log-likelihood.

The EM loop is stepped through the guarded observer hook; after every M-step
the monitor evaluates  L_i = sum_n s_n log sum_k pi_k p_k(y_n)  from the
reported model (component densities through the public ``log_pdf``, stored
weights) and requires L_i >= L_{i-1} - tol along the whole *history*:
every prefix of one fit, across continuation boundaries of split cACGMM fits,
after restarts from older checkpoints, after cancellation at a step boundary,
on shared (previously used, possibly crashed) trainer objects.
"""
import copy
import hashlib
import json

import numpy as np

from . import data, models, seams
from .seams import SimulatedCancel, SimulatedInterrupt

PROPERTY = 'C02'
REL_TOL = 1e-9

RULE = (
    'one run = one seeded program: model in {cACGMM, cWMM, GMM full/diagonal/'
    'spherical, GCACGMM}, data in general position (N >= 4KD per slice), '
    'strictly positive start, options (weight tying, saliency, covariance '
    'norm/type, affiliation_eps, hermitize), an operation list of fit '
    'segments (whole / split / restart-from-older-checkpoint / cancelled at '
    'a step boundary) interleaved with foreign fits (some interrupted, some '
    'of another dimension) on the same trainer object and foreign RNG draws; '
    'every EM step of every segment is a checked step. distinct = distinct '
    'schedule signature (model, K, D, F, options, saliency kind, sequence of '
    'op kinds / faults); non-trivial = at least 2 monotonicity comparisons '
    'were evaluated on it and it is distinct')
ASSUMPTIONS = [
    'component densities p_k are taken from the library\'s public log_pdf '
    '(whether log_pdf is the named density is C07, not decided here)',
    'tolerance 1e-9*(1+|L|), calibrated on the unchanged tree (worst observed '
    'relative decrease ~1e-13)',
    'prefix is cut at the first step with an active numerical guard (cACG '
    'eigenvalue < 1e4*floor*largest, Watson concentration at 0 or max), as '
    'the property\'s quantifier says; for the Gaussian models the analogous '
    'cut is a covariance eigenvalue below 1e-6 of the largest one (a '
    'component collapsing onto <= D points: unbounded likelihood, singular '
    'covariance)',
    'explicit library exceptions end a trajectory without verdict',
]
COMPONENTS = {
    'real': ['pb_bss (working tree, hooks on)', 'numpy', 'scipy',
             'scikit-learn', 'BLAS/LAPACK'],
    'stubbed': [],
    'simulator_owned': ['global numpy RNG', 'EM step observer (cancellation)',
                        'sys.settrace interrupt injector'],
}

MODELS = ('cacgmm', 'cwmm', 'gmm', 'gcacgmm')


# --------------------------------------------------------------------------
# generation
# --------------------------------------------------------------------------

def _choice(rng, seq):
    return seq[int(rng.randint(len(seq)))]


def _gen_opts(rng, kind, F):
    o = {}
    lead = F > 0
    if kind == 'gcacgmm':
        o['weight_constant_axis'] = list(_choice(
            rng, [(-1,), (-1,), (-3,), (-3, -1), (-3, -2, -1), (-2, -1)]))
    elif lead:
        o['weight_constant_axis'] = _choice(
            rng, [[-1], [-1], [-3], [-3, -1], -2, [-2], [-3, -2, -1]])
    else:
        o['weight_constant_axis'] = _choice(rng, [[-1], [-1], -2, [-2]])
    if kind in ('cacgmm', 'gcacgmm'):
        o['covariance_norm'] = _choice(rng, ['eigenvalue', 'eigenvalue',
                                             'trace', False])
        o['affiliation_eps'] = _choice(rng, [0.0, 1e-10, 1e-10, 1e-6, 1e-3])
        o['hermitize'] = bool(rng.randint(4) != 0)
        o['eigenvalue_floor'] = _choice(rng, [1e-10, 1e-10, 1e-8])
    if kind == 'gmm':
        o['covariance_type'] = _choice(rng, ['full', 'diagonal', 'spherical'])
    if kind == 'gcacgmm':
        o['covariance_type'] = _choice(rng, ['spherical', 'spherical',
                                             'diagonal', 'full'])
    return o


def _data_specs(rng, kind, K, D, F, N, E):
    lead = [F] if F > 0 else []
    seed = int(rng.randint(2 ** 31))
    layout = _choice(rng, ['C', 'C', 'F', 'neg', 'strided'])
    specs = {}
    if kind == 'cwmm' and rng.randint(3) == 0:
        # directional sources over the whole concentration range
        hi = float(_choice(rng, [30.0, 300.0, 690.0]))
        specs['obs'] = {'kind': 'cdirectional', 'shape': lead + [N, D], 'K': K,
                        'seed': seed, 'layout': layout,
                        'kappa_low': float(_choice(rng, [5.0, hi / 2])),
                        'kappa_high': hi}
    elif kind in models.COMPLEX_OBS:
        specs['obs'] = {'kind': 'cclusters', 'shape': lead + [N, D], 'K': K,
                        'seed': seed, 'layout': layout,
                        'spread': float(_choice(rng, [0.5, 1.0, 2.0])),
                        'dynamic_range': float(_choice(rng, [0, 0, 0, 6, 12, 19]))}
        geometry = int(rng.randint(12))
        if geometry in (3, 4):
            # strongly overlapping classes: one isotropic complex Gaussian
            # (posteriors stay far from 0 and 1)
            specs['obs'] = {'kind': 'cnormal', 'shape': lead + [N, D],
                            'seed': seed, 'layout': layout}
        elif geometry == 0:
            specs['obs']['unbalanced'] = int(D + 2 + rng.randint(0, D + 1))
        elif geometry == 1:
            specs['obs']['duplicates'] = float(_choice(rng, [0.05, 0.3]))
        elif geometry == 2:
            specs['obs']['real_valued'] = True
    else:
        specs['obs'] = {'kind': 'rclusters', 'shape': lead + [N, D], 'K': K,
                        'seed': seed, 'layout': layout,
                        'sep': float(_choice(rng, [0.5, 2.0, 4.0])),
                        'scale': float(_choice(rng, [1.0, 1.0, 1.0, 1e-2, 30.0])),
                        'offset': float(_choice(rng, [0, 0, 0, 0, 1e3, 3e5])),
                        'order': _choice(rng, ['shuffled', 'shuffled', 'sorted'])}
        if rng.randint(5) == 0:
            specs['obs']['outliers'] = int(rng.randint(1, 4))
            specs['obs']['outlier_scale'] = float(_choice(rng, [30.0, 100.0, 300.0]))
    if kind == 'gcacgmm':
        specs['emb'] = {'kind': 'rclusters', 'shape': lead + [N, E], 'K': K,
                        'seed': int(rng.randint(2 ** 31)), 'layout': 'C',
                        'sep': float(_choice(rng, [0.5, 2.0])),
                        'scale': float(_choice(rng, [1.0, 1.0, 1e-2, 30.0])),
                        'offset': float(_choice(rng, [0, 0, 0, 0, 1e3, 3e5])),
                        'order': _choice(rng, ['shuffled', 'shuffled', 'sorted'])}
    specs['init'] = {'kind': _choice(rng, ['affiliation', 'affiliation',
                                           'affiliation', 'affiliation',
                                           'affiliation_onehotish',
                                           'affiliation_onehotish',
                                           'affiliation_peaked']),
                     'shape': lead + [K, N],
                     'seed': int(rng.randint(2 ** 31)),
                     'layout': _choice(rng, ['C', 'C', 'F'])}
    sk = _choice(rng, ['none', 'none', 'real', 'int'])
    if sk == 'real':
        sc = float(_choice(rng, [1.0, 1.0, 1.0, 1e-2, 1e-4, 1e-12]))
        specs['saliency'] = {'kind': 'uniform', 'low': 0.2 * sc, 'high': 1.8 * sc,
                             'shape': lead + [N],
                             'seed': int(rng.randint(2 ** 31))}
    elif sk == 'int':
        specs['saliency'] = {'kind': 'integers', 'low': 1, 'high': 4,
                             'shape': lead + [N],
                             'seed': int(rng.randint(2 ** 31))}
    return specs


def _composition(rng, n, parts):
    parts = max(1, min(parts, n))
    cuts = sorted(rng.choice(np.arange(1, n), size=parts - 1, replace=False)) \
        if parts > 1 else []
    edges = [0] + [int(c) for c in cuts] + [n]
    return [edges[i + 1] - edges[i] for i in range(parts)]


def _foreign_fit(rng, kind, D, F, E, same_dim=True, same_shape=None):
    K = int(rng.randint(2, 4))
    d = D if same_dim else D + int(_choice(rng, [-1, 1, 2]))
    d = max(2, d)
    N = int(rng.randint(3 * d, 6 * d + 4))
    f = F if kind == 'gcacgmm' else int(_choice(rng, [F, F, 0, 2]))
    if same_shape is not None and same_dim and rng.randint(2):
        # an equally shaped problem with other data (the usual way a trainer
        # object is re-used)
        K, N, f = same_shape
    if kind == 'gcacgmm':
        f = max(1, f)
    op = {'op': 'foreign_fit', 'K': K, 'D': d, 'F': f, 'N': N, 'E': E,
          'seed': int(rng.randint(2 ** 31)),
          'iterations': int(rng.randint(1, 4)),
          'start': _choice(rng, ['init', 'num_classes']),
          'fault': None}
    r = rng.randint(10)
    if r == 0:
        op['fault'] = {'kind': 'interrupt', 'at': int(rng.randint(0, 150))}
    elif r == 1:
        op['fault'] = {'kind': 'cancel', 'at': int(rng.randint(0, op['iterations']))}
    return op


def generate(run_seed, tier='quick'):
    rng = np.random.RandomState(run_seed % (2 ** 32))
    thorough = tier == 'thorough'
    kind = _choice(rng, ['cacgmm', 'cacgmm', 'cacgmm', 'cwmm', 'cwmm', 'gmm',
                         'gmm', 'gmm', 'gcacgmm', 'gcacgmm'])
    K = int(rng.randint(2, 4))
    D = int(rng.randint(2, 6))
    E = int(rng.randint(2, 5))
    if thorough and rng.randint(3) == 0:
        K = int(rng.randint(2, 6))
        D = int(rng.randint(2, 9))
    if rng.randint(25) == 0:
        K = int(_choice(rng, [5, 6, 7]))
    if rng.randint(25) == 0:
        D = int(rng.randint(9, 13))          # more than 8 channels / features
    if kind == 'gcacgmm':
        F = int(rng.randint(1, 4))
    elif kind == 'gmm':
        F = 0
    else:
        F = int(_choice(rng, [0, 1, 2, 3]))
        if rng.randint(25) == 0:
            F = int(rng.randint(4, 10))
    opts = _gen_opts(rng, kind, F)
    if kind == 'gmm' and opts['covariance_type'] == 'full' and rng.randint(2):
        F = int(rng.randint(1, 4))     # only 'full' supports leading axes
        if rng.randint(30) == 0:
            F = int(rng.randint(44, 72))    # more than 128 covariance matrices
            D = min(D, 3)
        opts = dict(opts, weight_constant_axis=_gen_opts(rng, 'cacgmm', F)['weight_constant_axis'])
    N = 4 * K * max(D, E if kind == 'gcacgmm' else 0) + int(rng.randint(0, 30))
    if rng.randint(12) == 0:
        N += int(rng.randint(150, 500))     # size-dependent code paths
    if kind in ('gmm', 'gcacgmm') and rng.randint(40) == 0:
        N = int(rng.randint(4200, 7000)) if kind == 'gmm' else \
            int(rng.randint(4200, 7000)) // max(F, 1)
    specs = _data_specs(rng, kind, K, D, F, N, E)
    if kind == 'gmm' and rng.randint(6) == 0:
        # caller-given covariances: means and weights are still an exact M-step
        ct = opts['covariance_type']
        lead_ = [F] if F > 0 else []
        fc = {'seed': int(rng.randint(2 ** 31)), 'layout': 'C'}
        # commensurate with the spread of the data (a covariance that is
        # orders of magnitude too small makes every posterior underflow to
        # exactly 0 / 1, where the E-step's own floors take over)
        v = float(specs['obs'].get('scale', 1.0)) ** 2
        if ct == 'full':
            fc.update(kind='spd', shape=lead_ + [K, D, D], load=0.3, mult=v)
        elif ct == 'diagonal':
            fc.update(kind='uniform', shape=[K, D], low=0.3 * v, high=2.0 * v)
        else:
            fc.update(kind='uniform', shape=[K], low=0.3 * v, high=2.0 * v)
        specs['fixed_covariance'] = fc
    max_it = 50 if thorough else 30
    n = int(rng.randint(1, max_it + 1)) if rng.randint(3) else int(rng.randint(1, 9))
    many_channels = kind == 'cwmm' and rng.randint(200) == 0
    if many_channels:
        # many channels, very many nearly isotropic observations: the small
        # concentrations (< 1) that only large N can produce
        K, F = 2, 0
        opts = _gen_opts(rng, kind, F)
        D = int(_choice(rng, [10, 12, 16]))
        N = int(rng.randint(20000, 60000))
        specs = _data_specs(rng, kind, K, D, F, N, E)
        specs['obs'] = {'kind': 'cdiffuse', 'shape': [N, D], 'K': K,
                        'seed': int(rng.randint(2 ** 31)), 'layout': 'C',
                        'snr': float(_choice(rng, [0.003, 0.01, 0.03]))}
        specs.pop('saliency', None)
        n = int(rng.randint(6, 13))
    trainer_kwargs = {}
    if kind == 'cwmm':
        # spline_markers stays at its default: the Watson concentration update
        # is only as exact as the spline (worst relative decrease 3e-12 with
        # 1000 markers, 4e-11 with 400, 2e-7 -- above tolerance -- with 100),
        # and the property quantifies over exact / MM M-steps only
        trainer_kwargs = _choice(rng, [{}, {}, {'max_concentration': 100},
                                       {'max_concentration': 300}]
                                 + ([{'max_concentration': 700}] if D <= 7 else []))
    if many_channels:
        trainer_kwargs = {}
    many_posteriors = kind == 'cacgmm' and rng.randint(1500) == 0
    if many_posteriors:
        # more than 2**22 posteriors in one call
        K, D, F = 2, 2, 16
        N = int(2 ** 22 // (K * F) + rng.randint(100, 5000))
        opts = _gen_opts(rng, kind, F)
        specs = _data_specs(rng, kind, K, D, F, N, E)
        specs['obs']['layout'] = 'C'
        specs['init']['kind'] = 'affiliation'
        n = int(rng.randint(1, 3))
    many_frames = kind in ('cacgmm', 'gcacgmm') and not many_posteriors \
        and rng.randint(150) == 0
    if many_frames:
        # long recordings (size-dependent code paths of the cACG update)
        K, D, E = 2, int(_choice(rng, [2, 3, 4])), 2
        F = 0 if kind == 'cacgmm' else 1
        N = int(rng.randint(16500, 24000))
        opts = _gen_opts(rng, kind, F)
        specs = _data_specs(rng, kind, K, D, F, N, E)
        n = int(rng.randint(3, 9))
    ops = []
    # earlier history on the shared trainer
    for _ in range(0 if (many_channels or many_frames or many_posteriors) else int(_choice(rng, [0, 0, 1, 2, 3, 5]))):
        if rng.randint(4) == 0:
            ops.append({'op': 'draws', 'k': int(rng.randint(1, 50))})
        else:
            ops.append(_foreign_fit(rng, kind, D, F, E,
                                    same_dim=bool(rng.randint(4)),
                                    same_shape=(K, N, F)))
    if kind == 'cacgmm' and rng.randint(3) and not many_posteriors:
        # split / restart / cancel schedule
        segs = _composition(rng, n, int(rng.randint(1, 5)))
        seg_ids = []
        for j, m in enumerate(segs):
            src = 'init' if not seg_ids else seg_ids[-1]
            op = {'op': 'seg', 'src': src, 'iterations': int(m),
                  'cancel_at': None,
                  'via_dict': bool(src != 'init' and rng.randint(4) == 0)}
            if rng.randint(8) == 0:
                op['cancel_at'] = int(rng.randint(0, m))
            ops.append(op)
            seg_ids.append(len(ops) - 1)
            if rng.randint(3) == 0:
                ops.append(_foreign_fit(rng, kind, D, F, E,
                                        same_dim=bool(rng.randint(3)),
                                        same_shape=(K, N, F)))
            if rng.randint(5) == 0:
                ops.append({'op': 'draws', 'k': int(rng.randint(1, 50))})
        if len(seg_ids) > 1 and rng.randint(2):
            # crash that lost the later checkpoints: restart from an older one
            j = int(rng.randint(0, len(seg_ids) - 1))
            ops.append({'op': 'seg', 'src': seg_ids[j],
                        'iterations': int(rng.randint(1, 6)),
                        'cancel_at': None})
    else:
        op = {'op': 'seg', 'src': 'init', 'iterations': n, 'cancel_at': None}
        ops.append(op)
    refit = None
    if rng.randint(4) == 0:
        refit = int(rng.randint(1, min(n, 6) + 1))
    return {
        'prop': 'C02', 'model': kind, 'K': K, 'D': D, 'F': F, 'N': N, 'E': E,
        'specs': specs, 'opts': opts, 'trainer_kwargs': trainer_kwargs,
        'rng_seed': int(rng.randint(2 ** 31)), 'ops': ops,
        'refit_prefix': refit, 'tier': tier,
    }


# --------------------------------------------------------------------------
# execution
# --------------------------------------------------------------------------

def guard_active(kind, model, opts, trainer_kwargs):
    """The numerical guards named by the property's quantifier."""
    if kind in ('cacgmm', 'gcacgmm'):
        ev = np.asarray(model.cacg.covariance_eigenvalues)
        floor = float(opts.get('eigenvalue_floor', 1e-10))
        ratio = ev.min(axis=-1) / np.maximum(ev.max(axis=-1), 1e-300)
        if np.any(ratio < 1e4 * floor) or not np.all(np.isfinite(ev)):
            return True
    if kind in ('gmm', 'gcacgmm'):
        # a Gaussian collapsing onto <= D points has an unbounded likelihood
        # and a covariance that is singular to working precision: the
        # analogue of the cACG eigenvalue floor (same 1e-6 ratio)
        cov = np.asarray(model.gaussian.covariance)
        ct = opts.get('covariance_type', 'full' if kind == 'gmm' else 'spherical')
        if not np.all(np.isfinite(cov)):
            return True
        if ct == 'full':
            ev = np.linalg.eigvalsh(cov)
            small, large = ev[..., 0], ev[..., -1]
        elif ct == 'diagonal':
            small, large = cov.min(axis=-1), cov.max(axis=-1)
        else:
            small = large = cov
        if np.any(small < 1e-6 * np.max(large)):
            return True
    if kind == 'cwmm':
        c = np.asarray(model.complex_watson.concentration)
        mx = float(trainer_kwargs.get('max_concentration', 500))
        if np.any(c <= 0) or np.any(c >= mx):
            return True
    return False


class _Tracker:
    def __init__(self):
        self.log = []
        self.violations = []
        self.counters = {}
        self.sets = {}

    def count(self, k, n=1):
        self.counters[k] = self.counters.get(k, 0) + n

    def add(self, k, v):
        self.sets.setdefault(k, set()).add(v)


def _foreign(tr, program, op, trainer):
    kind = program['model']
    rng = np.random.RandomState(op['seed'])
    lead = [op['F']] if op['F'] > 0 else []
    K, D, N, E = op['K'], op['D'], op['N'], op['E']
    if kind in models.COMPLEX_OBS:
        obs = data.make({'kind': 'cnormal', 'shape': lead + [N, D],
                         'seed': op['seed']})
    else:
        obs = data.make({'kind': 'normal', 'shape': lead + [N, D],
                         'seed': op['seed']})
    emb = data.make({'kind': 'normal', 'shape': lead + [N, E],
                     'seed': op['seed'] + 1}) if kind == 'gcacgmm' else None
    init = None
    if op['start'] == 'init':
        init = data.make({'kind': 'affiliation', 'shape': lead + [K, N],
                          'seed': op['seed'] + 2})
    opts = {k: v for k, v in program['opts'].items()
            if k in ('covariance_type',)}
    fault = op.get('fault')
    outcome = 'ok'
    try:
        if fault and fault['kind'] == 'interrupt':
            with seams.line_tracer(raise_at=fault['at']) as t:
                models.call_fit(kind, trainer, obs, emb, init,
                                op['iterations'], opts, num_classes=K)
            if t.fired_site is None:
                outcome = 'ok(interrupt not reached)'
        elif fault and fault['kind'] == 'cancel':
            def obs_fn(trainer_, iteration, model, affiliation, **st):
                if iteration == fault['at']:
                    raise SimulatedCancel()
            with seams.observe(obs_fn):
                models.call_fit(kind, trainer, obs, emb, init,
                                op['iterations'], opts, num_classes=K)
        else:
            models.call_fit(kind, trainer, obs, emb, init, op['iterations'],
                            opts, num_classes=K)
    except SimulatedInterrupt:
        outcome = 'interrupted'
        tr.count('fault_fired:interrupt')
    except SimulatedCancel:
        outcome = 'cancelled'
        tr.count('fault_fired:cancel_foreign')
    except Exception as e:   # explicit rejection (e.g. other dimension)
        outcome = 'raised:' + type(e).__name__
        if D != program['D']:
            tr.count('probe:dimension_reject_path')
    tr.count('foreign_fits')
    return outcome


def _rebuild_cacgmm(m):
    from pb_bss.distribution import CACGMM, ComplexAngularCentralGaussian
    d = m.cacg.to_dict()
    cacg = ComplexAngularCentralGaussian.from_dict(
        {k: np.array(v, copy=True) for k, v in d.items()})
    return CACGMM(weight=np.array(m.weight, copy=True), cacg=cacg)


def execute(program):
    models.COPY_INPUTS = True
    kind = program['model']
    opts = program['opts']
    tk = program.get('trainer_kwargs', {})
    tr = _Tracker()
    specs = program['specs']
    obs = data.make(specs['obs'])
    emb = data.make(specs['emb']) if 'emb' in specs else None
    init = data.make(specs['init'])
    sal = data.make(specs['saliency']) if 'saliency' in specs else None
    extra = {}
    if 'fixed_covariance' in specs:
        extra['fixed_covariance'] = data.make(specs['fixed_covariance'])
    seams.rng_seed(program['rng_seed'])
    trainer = models.new_trainer(kind, tk)
    ops = program['ops']

    # state per seg op index
    returned = {}      # op index -> (model, L, guarded)
    maxes = {}
    comparisons = 0
    sched = []

    def effective_src(src):
        # a seg whose source was cancelled / deleted falls back on that
        # source's own source
        seen = 0
        while src != 'init' and seen < 100:
            if src in returned:
                return src
            o = ops[src] if isinstance(src, int) and 0 <= src < len(ops) else None
            if o is None or o.get('op') != 'seg':
                return 'init'
            src = o['src']
            seen += 1
        return 'init'

    for idx, op in enumerate(ops):
        if op['op'] == 'draws':
            np.random.uniform(size=op['k'])
            tr.count('foreign_draws')
            tr.log.append(['draws', op['k']])
            sched.append('d')
            continue
        if op['op'] == 'foreign_fit':
            outcome = _foreign(tr, program, op, trainer)
            tr.log.append(['foreign', outcome])
            sched.append('f:' + outcome.split('(')[0].split(':')[0]
                         + ('!' if op['D'] != program['D'] else ''))
            continue
        assert op['op'] == 'seg'
        src = effective_src(op['src'])
        if src == 'init':
            start, L_prev, guarded = init, None, False
        else:
            start, L_prev, guarded = returned[src]
            if kind != 'cacgmm':
                continue
            if op.get('via_dict'):
                # the caller stored the model (to_dict) and rebuilt it
                start = _rebuild_cacgmm(start)
                tr.count('probe:continued_from_rebuilt_model')
            tr.count('probe:continuation_boundary_crossed')
            if src != idx - 1 and any(
                    o['op'] == 'seg' for o in ops[src + 1:idx]):
                tr.count('probe:restart_from_older_checkpoint')
        steps = []
        state = {'guarded': guarded, 'L_prev': L_prev, 'last_model': None}

        def observer(trainer_, iteration, model, affiliation, **st):
            nonlocal comparisons
            if trainer_ is not trainer:
                return
            L = models.mixture_log_likelihood(kind, model, obs, emb, sal)
            steps.append(float(L).hex())
            tr.count('em_steps')
            state['last_model'] = model
            if not state['guarded'] and guard_active(kind, model, opts, tk):
                state['guarded'] = True
                tr.count('probe:guard_active_prefix_cut')
            eps_ = float(opts.get('affiliation_eps', 0.0) or 0.0)
            if not state['guarded'] and eps_ > 1e-10 \
                    and (iteration > 0 or src != 'init'):
                # the posterior this M-step used was clipped to [eps, 1-eps];
                # where the clip is (nearly) active the step is no exact
                # E-step (a numerical guard in the sense of the quantifier)
                if np.min(affiliation) <= 2 * eps_ \
                        or np.max(affiliation) >= 1 - 2 * eps_:
                    state['guarded'] = True
                    tr.count('probe:posterior_clip_active_prefix_cut')
            if not state['guarded']:
                if not np.isfinite(L):
                    tr.violations.append({
                        'property': 'C02', 'oracle': 'finite',
                        'entry': kind, 'op_index': idx, 'iteration': iteration,
                        'detail': f'log-likelihood {L} is not finite'})
                elif state['L_prev'] is not None:
                    comparisons += 1
                    tr.count('monotonicity_comparisons')
                    lp = state['L_prev']
                    maxes['relative_decrease'] = max(
                        maxes.get('relative_decrease', 0.0),
                        (lp - L) / (REL_TOL * (1 + abs(lp))))
                    if L < lp - REL_TOL * (1 + abs(lp)):
                        tr.violations.append({
                            'property': 'C02', 'oracle': 'monotone',
                            'entry': kind + _entry_suffix(kind, opts),
                            'op_index': idx, 'iteration': iteration,
                            'boundary': bool(iteration == 0 and src != 'init'),
                            'detail': f'L dropped {lp!r} -> {L!r} '
                                      f'(rel {(L - lp) / (1 + abs(lp)):.3e})'})
            state['L_prev'] = L
            if op.get('cancel_at') is not None and iteration == op['cancel_at']:
                raise SimulatedCancel()

        outcome = 'ok'
        model = None
        try:
            with seams.observe(observer):
                model = models.call_fit(kind, trainer, obs, emb, start,
                                        op['iterations'], opts, saliency=sal,
                                        extra=extra)
        except SimulatedCancel:
            outcome = 'cancelled'
            tr.count('fault_fired:cancel')
        except Exception as e:
            outcome = 'raised:' + type(e).__name__
            tr.count('library_exception')
            tr.add('library_exceptions', f'{kind}:{type(e).__name__}')
        tr.log.append(['seg', idx, str(src), outcome, steps])
        sched.append('s:' + ('i' if src == 'init' else 'm') + ':' + outcome.split(':')[0])
        tr.count('segments')
        if outcome == 'ok':
            # schedule clause used by this property: n iterations = n reports
            if len(steps) != op['iterations']:
                tr.violations.append({
                    'property': 'C02', 'oracle': 'step_reports',
                    'entry': kind, 'op_index': idx,
                    'detail': f'{len(steps)} step reports for '
                              f'iterations={op["iterations"]}'})
            # the returned model is the model whose likelihood was judged
            L_ret = models.mixture_log_likelihood(kind, model, obs, emb, sal)
            L_last = state['L_prev']
            if L_last is not None and np.isfinite(L_ret) and np.isfinite(L_last) \
                    and abs(L_ret - L_last) > REL_TOL * (1 + abs(L_last)) \
                    and not state['guarded']:
                tr.violations.append({
                    'property': 'C02', 'oracle': 'returned_model',
                    'entry': kind, 'op_index': idx,
                    'detail': f'returned model has L={L_ret!r}, last step '
                              f'reported L={L_last!r}'})
            if kind == 'cacgmm':
                # the model's own log_likelihood is the (unweighted-by-
                # saliency) mixture log-likelihood, weights included
                own = float(model.log_likelihood(models._lib(obs)))
                ref = models.mixture_log_likelihood(kind, model, obs, None, None)
                tr.count('own_log_likelihood_checks')
                if np.isfinite(ref) and not abs(own - ref) <= REL_TOL * (1 + abs(ref)):
                    tr.violations.append({
                        'property': 'C02', 'oracle': 'own_log_likelihood',
                        'entry': 'CACGMM.log_likelihood', 'op_index': idx,
                        'detail': f'log_likelihood()={own!r} but sum log sum '
                                  f'pi p = {ref!r}'})
            returned[idx] = (model, L_ret if sal is None or True else None,
                             state['guarded'])
            # returned[idx] L must be the saliency-weighted one used in chain
            returned[idx] = (model, state['L_prev'], state['guarded'])
        if tr.violations:
            break

    # independent observation without the hook: fit(iterations=i) from the
    # same start reproduces the i-th model of the history
    rp = program.get('refit_prefix')
    if rp and not tr.violations:
        first = next((l for l in tr.log if l[0] == 'seg' and l[2] == 'init'
                      and l[3] == 'ok'), None)
        if first and len(first[4]) >= rp:
            try:
                fresh = models.new_trainer(kind, tk)
                m = models.call_fit(kind, fresh, obs, emb, init, rp, opts,
                                    saliency=sal, extra=extra)
                L = models.mixture_log_likelihood(kind, m, obs, emb, sal)
                Lh = float.fromhex(first[4][rp - 1])
                tr.count('prefix_refits')
                tr.log.append(['refit', rp, float(L).hex()])
                if np.isfinite(L) and np.isfinite(Lh) and \
                        abs(L - Lh) > REL_TOL * (1 + abs(Lh)):
                    tr.violations.append({
                        'property': 'C02', 'oracle': 'prefix_refit',
                        'entry': kind,
                        'detail': f'fit(iterations={rp}) on a fresh trainer '
                                  f'has L={L!r}; step {rp} of the history had {Lh!r}'})
            except Exception as e:
                tr.log.append(['refit', rp, 'raised:' + type(e).__name__])

    sig_src = json.dumps([
        kind, program['K'], program['D'], program['F'],
        sorted((k, str(v)) for k, v in opts.items()),
        sorted((k, str(v)) for k, v in tk.items()),
        specs.get('saliency', {}).get('kind', 'none'), sched])
    signature = hashlib.sha1(sig_src.encode()).hexdigest()[:16]
    digest = hashlib.sha256(json.dumps(tr.log).encode()).hexdigest()[:24]
    tr.count('ops', len(ops))
    tr.add('models', kind + _entry_suffix(kind, opts))
    tr.add('weight_constant_axis', f'{kind}:{opts.get("weight_constant_axis")}')
    return {
        'digest': digest, 'signature': signature,
        'nontrivial': comparisons >= 2,
        'maxes': maxes,
        'counters': tr.counters,
        'sets': {k: sorted(v) for k, v in tr.sets.items()},
        'violations': tr.violations,
    }


def _entry_suffix(kind, opts):
    if kind == 'gmm':
        return ':' + opts.get('covariance_type', 'full')
    return ''


# --------------------------------------------------------------------------
# shrinking
# --------------------------------------------------------------------------

def shrink_candidates(program):
    p = program
    ops = p['ops']
    # drop one op (later ones first); seg references are by index -> remap
    for i in reversed(range(len(ops))):
        if len(ops) == 1:
            break
        q = copy.deepcopy(p)
        del q['ops'][i]
        for o in q['ops']:
            if o.get('op') == 'seg' and isinstance(o['src'], int):
                if o['src'] == i:
                    o['src'] = ops[i]['src'] if ops[i].get('op') == 'seg' else 'init'
                    if isinstance(o['src'], int) and o['src'] > i:
                        o['src'] -= 1
                elif o['src'] > i:
                    o['src'] -= 1
        yield q
    # drop faults
    for i, o in enumerate(ops):
        if o.get('fault') or o.get('cancel_at') is not None:
            q = copy.deepcopy(p)
            q['ops'][i]['fault'] = None
            if 'cancel_at' in q['ops'][i]:
                q['ops'][i]['cancel_at'] = None
            yield q
    # fewer iterations
    for i, o in enumerate(ops):
        if o.get('op') == 'seg' and o['iterations'] > 1:
            for m in (1, 2, o['iterations'] // 2, o['iterations'] - 1):
                if 1 <= m < o['iterations']:
                    q = copy.deepcopy(p)
                    q['ops'][i]['iterations'] = m
                    yield q
    if p.get('refit_prefix'):
        q = copy.deepcopy(p)
        q['refit_prefix'] = None
        yield q
    # simpler options
    if 'saliency' in p['specs']:
        q = copy.deepcopy(p)
        del q['specs']['saliency']
        yield q
    simple = {'weight_constant_axis': [-1], 'covariance_norm': 'eigenvalue',
              'affiliation_eps': 0.0, 'hermitize': True,
              'eigenvalue_floor': 1e-10}
    for k, v in simple.items():
        if k in p['opts'] and p['opts'][k] != v:
            q = copy.deepcopy(p)
            q['opts'][k] = v
            yield q
    if p.get('trainer_kwargs'):
        q = copy.deepcopy(p)
        q['trainer_kwargs'] = {}
        yield q
    for k in ('obs', 'init', 'emb'):
        if k in p['specs'] and p['specs'][k].get('layout', 'C') != 'C':
            q = copy.deepcopy(p)
            q['specs'][k]['layout'] = 'C'
            yield q
    # smaller sizes (keeping N >= 4KD)
    def resized(F=None, N=None):
        q = copy.deepcopy(p)
        F_ = p['F'] if F is None else F
        N_ = p['N'] if N is None else N
        for k, s in q['specs'].items():
            if k == 'fixed_covariance':
                if p['F'] > 0 and len(s['shape']) == 4:
                    s['shape'] = [F_] + list(s['shape'][1:])
                continue
            shp = list(s['shape'])
            if p['F'] > 0:
                shp[0] = F_
            if k in ('obs', 'emb'):
                shp[-2] = N_
            else:
                shp[-1] = N_
            s['shape'] = shp
        q['F'], q['N'] = F_, N_
        return q
    if p['F'] > 1:
        yield resized(F=1)
    nmin = 4 * p['K'] * max(p['D'], p['E'] if p['model'] == 'gcacgmm' else 0)
    if p['N'] > nmin:
        yield resized(N=nmin)
