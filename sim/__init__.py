"""Deterministic simulation with fault injection for fgnt/pb_bss (see DESIGN.md)."""
