"""Command line of the checks (called through bin/vcheck)."""
import argparse
import os
import sys

from . import env


def main(argv):
    if not argv:
        print(__doc__)
        return 2
    cmd = argv[0]
    if cmd == 'replay':
        from . import driver
        return driver.replay(argv[1])
    if cmd == 'selftest':
        from . import selftest
        return selftest.main(argv[1:])
    if cmd in ('C02', 'C08', 'C20'):
        ap = argparse.ArgumentParser(prog='vcheck ' + cmd)
        ap.add_argument('--tier', default=os.environ.get('VERIF_TIER') or 'quick',
                        choices=['quick', 'thorough'])
        ap.add_argument('--seed', type=int,
                        default=int(os.environ.get('VERIF_SEED') or 0))
        ap.add_argument('--budget', type=float, default=None)
        ap.add_argument('--runs', type=int, default=None)
        ap.add_argument('--workers', type=int, default=None)
        a = ap.parse_args(argv[1:])
        env.ensure_repo_importable()
        from . import driver
        try:
            return driver.check(cmd, a.tier, a.seed, a.budget, a.runs, a.workers)
        except BaseException as e:   # harness failure is never success
            import traceback
            traceback.print_exc()
            print(f'HARNESS-ERROR {type(e).__name__}: {e}')
            return 2
    print(f'unknown command {cmd!r}')
    return 2
