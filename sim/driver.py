"""Batch driver: seeded runs on a fork pool, aggregation, shrinking, replay
files, known-findings matching and evidence (DESIGN.md §2.4-2.6).

A *property module* provides
    PROPERTY                      id string
    generate(run_seed, tier)   -> program (JSON-serialisable dict)
    execute(program)           -> result dict (see RunResult below)
    shrink_candidates(program) -> iterator of simpler programs
    RULE, ASSUMPTIONS, COMPONENTS strings / lists for the evidence file
"""
import concurrent.futures as cf
import faulthandler
import hashlib
import importlib
import json
import multiprocessing
import os
import re
import sys
import time
import traceback

from . import env

RUN_TIMEOUT_S = 300          # hard per-chunk watchdog (worker dumps + exits)

MODULES = {'C02': 'sim.c02', 'C08': 'sim.c08', 'C20': 'sim.c20'}


def load(prop):
    return importlib.import_module(MODULES[prop])


def run_seed_of(seed, index):
    return int(seed) * 1_000_000 + int(index)


def violation_class(v):
    return (v.get('property'), v.get('oracle'), v.get('entry'))


# --------------------------------------------------------------------------
# worker side
# --------------------------------------------------------------------------

_INIT = {}
_WORKER_STATE = {'seq': 0}


def _worker_init():
    env.ensure_repo_importable()
    import numpy as np
    np.seterr(all='warn')
    _INIT['ok'] = True


def _execute_guarded(mod, program):
    """Execute a program; harness exceptions are reported apart from
    violations."""
    try:
        return mod.execute(program)
    except BaseException as e:   # noqa  (SimulatedInterrupt is a BaseException)
        if isinstance(e, (KeyboardInterrupt, SystemExit)):
            raise
        return {'harness_error': ''.join(
            traceback.format_exception(type(e), e, e.__traceback__))[-4000:]}


def _worker_chunk(prop, tier, run_seeds, want_program):
    if 'ok' not in _INIT:
        _worker_init()
    faulthandler.dump_traceback_later(RUN_TIMEOUT_S, exit=True)
    try:
        mod = load(prop)
        out = []
        for rs in run_seeds:
            program = mod.generate(rs, tier)
            res = _execute_guarded(mod, program)
            res['run_seed'] = rs
            res['pid'] = os.getpid()
            res['seq'] = _WORKER_STATE['seq']
            _WORKER_STATE['seq'] += 1
            res.pop('log', None)
            if want_program or res.get('violations') or res.get('harness_error'):
                res['program'] = program
            out.append(res)
        return out
    finally:
        faulthandler.cancel_dump_traceback_later()


def _worker_program(prop, program):
    if 'ok' not in _INIT:
        _worker_init()
    faulthandler.dump_traceback_later(RUN_TIMEOUT_S, exit=True)
    try:
        return _execute_guarded(load(prop), program)
    finally:
        faulthandler.cancel_dump_traceback_later()


def make_pool(workers):
    ctx = multiprocessing.get_context('fork')
    return cf.ProcessPoolExecutor(max_workers=workers, mp_context=ctx,
                                  initializer=_worker_init)


# --------------------------------------------------------------------------
# aggregation
# --------------------------------------------------------------------------

class Aggregate:
    def __init__(self):
        self.runs = 0
        self.counters = {}
        self.sets = {}
        self.signatures = set()
        self.nontrivial_signatures = set()
        self.digest = hashlib.sha256()
        self.violations = []       # (run_seed, program, record)
        self.harness_errors = []   # (run_seed, text)
        self.samples = []
        self.first_seed = None
        self.last_seed = None
        self.by_worker = {}
        self.maxes = {}

    def add(self, res):
        self.runs += 1
        rs = res['run_seed']
        if 'pid' in res:
            self.by_worker.setdefault(res['pid'], []).append((res['seq'], rs))
        self.first_seed = rs if self.first_seed is None else min(self.first_seed, rs)
        self.last_seed = rs if self.last_seed is None else max(self.last_seed, rs)
        if res.get('harness_error'):
            self.harness_errors.append((rs, res['harness_error'], res.get('program')))
            return
        for k, v in res.get('counters', {}).items():
            self.counters[k] = self.counters.get(k, 0) + v
        for k, v in res.get('maxes', {}).items():
            if v > self.maxes.get(k, 0.0):
                self.maxes[k] = v
        for k, v in res.get('sets', {}).items():
            self.sets.setdefault(k, set()).update(
                tuple(x) if isinstance(x, list) else x for x in v)
        sig = res.get('signature')
        if sig is not None:
            self.signatures.add(sig)
            if res.get('nontrivial'):
                self.nontrivial_signatures.add(sig)
        for v in res.get('violations', []):
            self.violations.append((rs, res.get('program'), v))
        if 'program' in res and len(self.samples) < 3 \
                and not res.get('violations'):
            self.samples.append({'run_seed': rs, 'program': res['program'],
                                 'log_digest': res.get('digest')})


def run_batch(prop, tier, seed, budget_s, max_runs, workers, chunk=4,
              start_index=0, log=print):
    """Seeded search: runs run_seed_of(seed, i) for i = start_index.. until the
    wall budget or max_runs is exhausted.  Returns (Aggregate, wall_s, digests)
    where digests maps run_seed -> event-log digest."""
    t0 = time.time()
    agg = Aggregate()
    digests = {}
    next_index = start_index
    pending = set()
    stop_submitting = False
    with make_pool(workers) as pool:
        try:
            while True:
                while (not stop_submitting and len(pending) < 2 * workers):
                    if max_runs is not None and next_index - start_index >= max_runs:
                        stop_submitting = True
                        break
                    if time.time() - t0 > budget_s:
                        stop_submitting = True
                        break
                    n = chunk
                    if max_runs is not None:
                        n = min(n, max_runs - (next_index - start_index))
                    seeds = [run_seed_of(seed, next_index + j) for j in range(n)]
                    want_program = next_index - start_index < 3 * chunk
                    pending.add(pool.submit(_worker_chunk, prop, tier, seeds,
                                            want_program))
                    next_index += n
                if not pending:
                    break
                done, pending = cf.wait(pending, timeout=RUN_TIMEOUT_S + 30,
                                        return_when=cf.FIRST_COMPLETED)
                if not done:
                    raise RuntimeError('worker wall time-out')
                for fut in done:
                    for res in fut.result():
                        agg.add(res)
                        if 'digest' in res:
                            digests[res['run_seed']] = res['digest']
                # stop early once enough distinct violation classes are known
                if len({violation_class(v) for _, _, v in agg.violations}) >= 6:
                    stop_submitting = True
        except BaseException:
            for f in pending:
                f.cancel()
            raise
    return agg, time.time() - t0, digests


# --------------------------------------------------------------------------
# shrinking
# --------------------------------------------------------------------------

def shrink(prop, program, record, pool, budget_s=120, log=print):
    """Greedy delta-debugging: keep the first candidate (in the module's
    order) that reproduces the same violation class; repeat to fixpoint."""
    mod = load(prop)
    target = violation_class(record)
    t0 = time.time()
    best, best_record = program, record
    steps = 0
    improved = True
    while improved and time.time() - t0 < budget_s:
        improved = False
        cands = []
        for c in mod.shrink_candidates(best):
            cands.append(c)
            if len(cands) >= 400:
                break
        i = 0
        width = max(4, pool._max_workers)
        while i < len(cands) and time.time() - t0 < budget_s:
            batch = cands[i:i + width]
            futs = [pool.submit(_worker_program, prop, c) for c in batch]
            results = [f.result() for f in futs]
            hit = None
            for c, r in zip(batch, results):
                for v in r.get('violations', []) if not r.get('harness_error') else []:
                    if violation_class(v) == target:
                        hit = (c, v)
                        break
                if hit:
                    break
            if hit:
                best, best_record = hit
                steps += 1
                improved = True
                break
            i += width
    return best, best_record, steps


# --------------------------------------------------------------------------
# known findings
# --------------------------------------------------------------------------

def load_known_findings():
    path = os.path.join(env.VERIF_HOME, 'known_findings.json')
    if not os.path.exists(path):
        return []
    with open(path) as fd:
        return json.load(fd).get('findings', [])


def match_known(record, findings):
    """A violation is a listed finding iff a status='known' entry of the same
    property matches every key of its 'match' dict against the (minimised)
    violation record (regular expression, full match, on the string form)."""
    for f in findings:
        if f.get('status') != 'known' or f.get('property') != record.get('property'):
            continue
        ok = True
        for k, pat in f.get('match', {}).items():
            if not re.fullmatch(str(pat), str(record.get(k))):
                ok = False
                break
        if ok:
            return f
    return None


# --------------------------------------------------------------------------
# replay files
# --------------------------------------------------------------------------

def write_replay(prop, run_seed, program, record, original_program=None,
                 shrink_steps=0):
    d = os.path.join(os.environ.get('VERIF_OUT') or env.VERIF_HOME, 'replays')
    os.makedirs(d, exist_ok=True)
    tag = hashlib.sha1(json.dumps(
        [violation_class(record)], sort_keys=True).encode()).hexdigest()[:8]
    path = os.path.join(d, f'{prop}-{run_seed}-{tag}.json')
    with open(path, 'w') as fd:
        json.dump({
            'property': prop,
            'run_seed': run_seed,
            'violation': record,
            'violation_class': list(violation_class(record)),
            'program': program,
            'shrink_steps': shrink_steps,
            'original_program_size': _size(original_program)
            if original_program is not None else None,
            'minimised_program_size': _size(program),
            'source_digest': env.source_digest(),
            'repo': env.REPO,
            'replay_cmd': f'bin/vcheck replay {os.path.relpath(path, env.VERIF_HOME)}',
        }, fd, indent=1, sort_keys=True, default=_json_default)
    return path


def _size(program):
    if program is None:
        return None
    ops = program.get('ops')
    return len(ops) if isinstance(ops, list) else len(json.dumps(program, default=_json_default))


def _json_default(o):
    import numpy as np
    if isinstance(o, np.generic):
        return o.item()
    if isinstance(o, np.ndarray):
        return o.tolist()
    if isinstance(o, (set, frozenset)):
        return sorted(o)
    if isinstance(o, tuple):
        return list(o)
    return repr(o)


def replay(path, log=print):
    with open(path) as fd:
        rep = json.load(fd)
    prop = rep['property']
    env.ensure_repo_importable()
    mod = load(prop)
    if rep['program'].get('process_history'):
        rc = replay_process_history(rep, log)
        if rc == 1:
            log(f'VIOLATION property={prop} replay={path}')
        return rc
    res = _execute_guarded(mod, rep['program'])
    if res.get('harness_error'):
        log('HARNESS-ERROR during replay:\n' + res['harness_error'])
        return 2
    target = tuple(rep['violation_class'])
    for v in res.get('violations', []):
        if violation_class(v) == target:
            log(f'replay reproduces: {json.dumps(v, default=_json_default)}')
            log(f'event-log digest: {res.get("digest")}')
            log(f'VIOLATION property={prop} replay={path}')
            return 1
    log(f'replay did NOT reproduce violation class {target} on this tree '
        f'(source digest now {env.source_digest()}, recorded {rep.get("source_digest")}); '
        f'violations seen: {[violation_class(v) for v in res.get("violations", [])]}')
    return 0 if not res.get('violations') else 3


# --------------------------------------------------------------------------
# evidence
# --------------------------------------------------------------------------

def write_evidence(prop, tier, seed, agg, wall_s, mod, n_violations, extra=None):
    # VERIF_OUT redirects evidence and replay files (used when the checks are
    # pointed at a scratch copy of the repo, e.g. a seeded mutant)
    d = os.path.join(os.environ.get('VERIF_OUT') or env.VERIF_HOME, 'evidence')
    os.makedirs(d, exist_ok=True)
    sets_summary = {}
    for k, v in sorted(agg.sets.items()):
        vals = sorted(v, key=repr)
        sets_summary[k] = {'count': len(vals),
                           'examples': [list(x) if isinstance(x, tuple) else x
                                        for x in vals[:12]]}
    coverage = {
        'evaluations': agg.runs,
        'distinct_nontrivial': len(agg.nontrivial_signatures),
        'distinct_schedule_signatures': len(agg.signatures),
        'rule': mod.RULE,
        'samples': agg.samples or [{'note': 'no sample kept'}],
        'exhaustive': False,
        'runs_per_hour': round(agg.runs / max(wall_s, 1e-9) * 3600),
        'run_seeds': [agg.first_seed, agg.last_seed],
        'simulated_time': 'not applicable: the system reads no clock; the '
                          'unit of progress is the operation / EM step '
                          '(see counters ops, em_steps)',
        'counters': dict(sorted(agg.counters.items())),
        'sets': sets_summary,
        'tolerance_margins_used': {
            'what': 'largest observed deviation divided by its tolerance, per '
                    'comparison kind, over this run (1.0 would be an alarm)',
            'values': {k: float(f'{v:.3g}') for k, v in sorted(agg.maxes.items())}},
        'components': mod.COMPONENTS,
        'harness_errors': len(agg.harness_errors),
    }
    if extra:
        coverage.update(extra)
    ev = {
        'property_id': prop,
        'tier': tier,
        'seed': int(seed),
        'level': 'exploration',
        'coverage': coverage,
        'assumptions': mod.ASSUMPTIONS,
        'wall_s': round(wall_s, 2),
        'violations': n_violations,
    }
    path = os.path.join(d, f'{prop}.json')
    tmp = path + '.tmp'
    with open(tmp, 'w') as fd:
        json.dump(ev, fd, indent=1, default=_json_default)
    os.replace(tmp, path)
    return path


# --------------------------------------------------------------------------
# the check command
# --------------------------------------------------------------------------

DEFAULT_BUDGET = {'quick': 75.0, 'thorough': 1500.0}


def check(prop, tier, seed, budget_s=None, max_runs=None, workers=None,
          log=print):
    mod = load(prop)
    workers = workers or int(os.environ.get('VERIF_WORKERS', 0)) \
        or min(16, os.cpu_count() or 1)
    if budget_s is None:
        budget_s = float(os.environ.get('VERIF_BUDGET_S', 0)) \
            or DEFAULT_BUDGET[tier]
    log(f'# check {prop} tier={tier} VERIF_SEED={seed} budget={budget_s}s '
        f'workers={workers} repo={env.REPO} sources={env.source_digest()[:12]}')
    t0 = time.time()
    extra = {}
    pre_violations = []
    if hasattr(mod, 'fixed_catalogue'):
        # deterministic, enumerated part of the check (e.g. complete
        # interrupt-site enumeration of a fixed catalogue)
        pre = mod.fixed_catalogue(tier, workers, log)
        extra.update(pre.get('coverage', {}))
        pre_violations = pre.get('violations', [])
    agg, wall, digests = run_batch(prop, tier, seed, budget_s, max_runs,
                                   workers, log=log)
    for rs, program, rec in pre_violations:
        agg.violations.append((rs, program, rec))
    process_violations = []
    if getattr(mod, 'CROSS_PROCESS_SAMPLE', None) and not agg.harness_errors \
            and not agg.violations:
        t1 = time.time()
        n_cmp, process_violations = cross_process_check(
            prop, tier, agg, digests, workers,
            mod.CROSS_PROCESS_SAMPLE[tier], log)
        extra['process_history_replica'] = {
            'runs_reexecuted_in_pristine_process': n_cmp,
            'digest_mismatches': len(process_violations),
            'wall_s': round(time.time() - t1, 1),
            'what': 'a sample of runs (those executed latest in each batch '
                    'worker, i.e. after the longest process history) is '
                    'executed again in a freshly forked pristine process; '
                    'event-log digests (bitwise result digests of every '
                    'operation) must agree',
        }
        log(f'# {prop} process-history replica: {n_cmp} runs re-executed in '
            f'pristine processes, {len(process_violations)} mismatches, '
            f'{time.time() - t1:.1f}s')
    if agg.harness_errors:
        rs, text, program = agg.harness_errors[0]
        log(f'HARNESS-ERROR in run_seed={rs} ({len(agg.harness_errors)} in total):\n{text}')
        write_evidence(prop, tier, seed, agg, time.time() - t0, mod,
                       len(agg.violations), extra)
        return 2
    findings = load_known_findings()
    exit_code = 0
    reported = 0
    known_printed = set()
    if agg.violations:
        # one representative per violation class, minimised
        by_class = {}
        for rs, program, rec in agg.violations:
            by_class.setdefault(violation_class(rec), (rs, program, rec))
        with make_pool(workers) as pool:
            for cls, (rs, program, rec) in sorted(by_class.items(), key=repr):
                # a listed finding is recognised by its violation class and
                # record, which shrinking preserves: no need to minimise it
                # again on every run
                known = match_known(rec, findings)
                if known is not None:
                    key = known.get('id') or known.get('what')
                    if key not in known_printed:
                        known_printed.add(key)
                        log(f'KNOWN-FINDING: property={prop} {known.get("what")}')
                    continue
                small, small_rec, steps = shrink(prop, program, rec, pool,
                                                 budget_s=90 if tier == 'quick' else 300)
                known = match_known(small_rec, findings)
                if known is not None:
                    key = known.get('id') or known.get('what')
                    if key not in known_printed:
                        known_printed.add(key)
                        log(f'KNOWN-FINDING: property={prop} {known.get("what")}')
                    continue
                path = write_replay(prop, rs, small, small_rec, program, steps)
                log(f'violation: {json.dumps(small_rec, default=_json_default)}')
                log(f'VIOLATION property={prop} replay={path}')
                reported += 1
                exit_code = 1
    for rs, program, rec in process_violations:
        known = match_known(rec, findings)
        if known is not None:
            log(f'KNOWN-FINDING: property={prop} {known.get("what")}')
            continue
        path = write_replay(prop, rs, program, rec, None, 0)
        log(f'violation: {json.dumps(rec, default=_json_default)}')
        log(f'VIOLATION property={prop} replay={path}')
        reported += 1
        exit_code = 1
    total_wall = time.time() - t0
    write_evidence(prop, tier, seed, agg, total_wall, mod, reported, extra)
    log(f'# {prop}: runs={agg.runs} distinct_nontrivial={len(agg.nontrivial_signatures)} '
        f'violations={reported} known_findings={len(known_printed)} '
        f'wall={total_wall:.1f}s ({agg.runs / max(wall, 1e-9) * 3600:.0f} runs/h)')
    return exit_code


# --------------------------------------------------------------------------
# process-history oracle (cross-process replica)
# --------------------------------------------------------------------------
# A result must not depend on what the *process* did before (module-level
# caches, lru_cache'd helpers, class attributes).  The in-process replica of
# C20 cannot see such state: world and replica share it.  So a sample of runs
# is executed again in a pristine child process (forked from a process that
# imported pb_bss but never executed anything) and the event-log digest must
# equal the one obtained in the long-lived batch worker.

def _child_run(conn, prop, tier, history, target, want_log):
    try:
        mod = load(prop)
        for item in history:
            p = mod.generate(item, tier) if isinstance(item, int) else item
            _execute_guarded(mod, p)
        p = mod.generate(target, tier) if isinstance(target, int) else target
        res = _execute_guarded(mod, p)
        conn.send({'digest': res.get('digest'),
                   'log': res.get('log') if want_log else None,
                   'harness_error': res.get('harness_error'),
                   'violations': res.get('violations', [])})
    except BaseException as e:   # noqa
        conn.send({'harness_error': repr(e)})
    finally:
        conn.close()


def _pristine_task(prop, tier, history, target, want_log=False):
    """Runs in a pool worker that never executes programs itself: forks a
    child that executes ``history`` then ``target`` (run seeds or programs)."""
    ctx = multiprocessing.get_context('fork')
    parent, child = ctx.Pipe(duplex=False)
    proc = ctx.Process(target=_child_run,
                       args=(child, prop, tier, history, target, want_log))
    proc.start()
    child.close()
    out = {'harness_error': 'child died'}
    if parent.poll(RUN_TIMEOUT_S):
        try:
            out = parent.recv()
        except EOFError:
            pass
    proc.join(10)
    if proc.is_alive():
        proc.kill()
    return out


def _first_log_difference(log_a, log_b):
    for i, (x, y) in enumerate(zip(log_a or [], log_b or [])):
        if x != y:
            return i, x, y
    return None


def cross_process_check(prop, tier, agg, digests, workers, sample, log=print):
    """Returns (n_compared, violations[(run_seed, program, record)])."""
    mod = load(prop)
    # prefer runs executed late in a worker's life (long process history)
    cand = []
    for pid, runs in agg.by_worker.items():
        runs = sorted(runs)
        seeds = [rs for _, rs in runs]
        for i, rs in enumerate(seeds):
            cand.append((i, rs, pid))
    cand.sort(reverse=True)
    cand = [c for c in cand if c[1] in digests][:sample]
    hist_of = {pid: [rs for _, rs in sorted(runs)]
               for pid, runs in agg.by_worker.items()}
    out = []
    with make_pool(workers) as pool:
        futs = [(c, pool.submit(_pristine_task, prop, tier, [], c[1]))
                for c in cand]
        mismatches = []
        for (i, rs, pid), f in futs:
            r = f.result()
            if r.get('harness_error'):
                raise RuntimeError('cross-process replica failed: '
                                   + str(r['harness_error'])[-500:])
            if r['digest'] != digests[rs]:
                mismatches.append((i, rs, pid, r['digest']))
        for i, rs, pid, solo_digest in mismatches[:3]:
            history = hist_of[pid][:i]

            def differs(h):
                r = _pristine_task(prop, tier, h, rs)
                return r.get('digest') is not None and r['digest'] != solo_digest

            # confirm, then minimise the history (ddmin, complement-first)
            if not pool.submit(_pristine_task, prop, tier, history, rs).result() \
                    .get('digest') != solo_digest:
                pass
            n = 2
            while len(history) >= 2:
                size = max(1, len(history) // n)
                subsets = [history[k:k + size] for k in range(0, len(history), size)]
                futs2 = [pool.submit(_pristine_task, prop, tier,
                                     [x for x in history if x not in sub], rs)
                         for sub in subsets]
                reduced = False
                for sub, f2 in zip(subsets, futs2):
                    r2 = f2.result()
                    if r2.get('digest') is not None and r2['digest'] != solo_digest:
                        history = [x for x in history if x not in sub]
                        n = max(n - 1, 2)
                        reduced = True
                        break
                if not reduced:
                    if size == 1:
                        break
                    n = min(len(history), n * 2)
            a = pool.submit(_pristine_task, prop, tier, [], rs, True).result()
            b = pool.submit(_pristine_task, prop, tier, history, rs, True).result()
            d = _first_log_difference(a.get('log'), b.get('log'))
            entry = 'process'
            detail = 'event log differs'
            if d:
                entry = str(d[1][1]) if isinstance(d[1], list) and len(d[1]) > 1 else 'process'
                detail = (f'operation {d[0]} ({entry}) gives {d[2]} after the '
                          f'process executed {len(history)} earlier program(s), '
                          f'but {d[1]} in a pristine process')
            rec = {'property': prop, 'oracle': 'O3-process-history',
                   'entry': entry, 'detail': detail}
            program = {'prop': prop, 'process_history': True, 'tier': tier,
                       'history': [mod.generate(h, tier) for h in history],
                       'target': mod.generate(rs, tier)}
            out.append((rs, program, rec))
    return len(cand), out


def replay_process_history(rep, log=print):
    prop = rep['property']
    program = rep['program']
    tier = program.get('tier', 'quick')
    a = _pristine_task(prop, tier, [], program['target'], True)
    b = _pristine_task(prop, tier, program['history'], program['target'], True)
    if a.get('harness_error') or b.get('harness_error'):
        log('HARNESS-ERROR during replay: ' + str(a.get('harness_error') or b.get('harness_error')))
        return 2
    if a['digest'] != b['digest']:
        d = _first_log_difference(a.get('log'), b.get('log'))
        log(f'replay reproduces: pristine digest {a["digest"]} != digest after '
            f'{len(program["history"])} earlier program(s) {b["digest"]}; first '
            f'difference: {d}')
        return 1
    log('replay did NOT reproduce: digests agree (' + str(a['digest']) + ')')
    return 0
