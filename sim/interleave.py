"""Thread-scheduling seam: two caller threads under one baton.

Two callables run on two real Python threads, but exactly one of them executes
at any time: a thread gives up the baton only at a Python ``line`` event
inside a pb_bss frame (sys.settrace, set per thread), after as many events as
the schedule says, and then parks on its own semaphore until the other thread
hands the baton back.  Who runs next is therefore decided by the schedule (a
list of quanta drawn from the run's PRNG) and by nothing else: one schedule is
one exactly repeatable interleaving.  NumPy / BLAS calls are atomic under this
seam (no Python state of pb_bss changes while they run).

Nothing here draws random numbers or reads a clock (the join timeout only
turns a deadlock of the harness into a harness error).
"""
import sys
import threading

from . import env, seams

RUN_OUT = 10 ** 12


class Deadlock(RuntimeError):
    pass


class _Worker(threading.Thread):
    def __init__(self, il, index, fn):
        super().__init__(name=f'sim-caller-{index}', daemon=True)
        self.il, self.index, self.fn = il, index, fn
        self.sem = threading.Semaphore(0)
        self.done = False
        self.result = None

    def run(self):
        self.sem.acquire()                  # wait for the baton
        sys.settrace(self._global)
        try:
            self.result = ('ok', self.fn())
        except BaseException as e:          # noqa: the outcome is recorded
            self.result = ('raised', e)
        finally:
            sys.settrace(None)
            self.done = True
            self.il._finished(self.index)

    def _global(self, frame, event, arg):
        if event == 'call' and frame.f_code.co_filename.startswith(env.PKG_DIR):
            return self._local
        return None

    def _local(self, frame, event, arg):
        if event == 'line':
            il = self.il
            il.events[self.index] += 1
            kill = il.kill_at.get(self.index)
            if kill is not None and il.events[self.index] > kill \
                    and il.killed.get(self.index) is None \
                    and frame.f_lineno not in seams.line_tracer._with_lines(
                        frame.f_code):
                # this caller crashes here (KeyboardInterrupt / MemoryError
                # like), the other one goes on
                site = (f'{frame.f_code.co_filename[len(env.REPO) + 1:]}'
                        f':{frame.f_lineno}')
                il.killed[self.index] = site
                raise seams.SimulatedInterrupt(site)
            il.budget -= 1
            if il.budget <= 0:
                other = il.workers[1 - self.index]
                if other.done:
                    il.budget = RUN_OUT
                else:
                    il.switches.append(
                        (self.index,
                         frame.f_code.co_filename[len(env.REPO) + 1:],
                         frame.f_lineno))
                    il.budget = il._next_quantum()
                    other.sem.release()     # hand the baton over ...
                    self.sem.acquire()      # ... and park
        return self._local


class Interleaver:
    def __init__(self, schedule, first=0, timeout=120.0, kill_at=None):
        # kill_at: {caller index: number of line events after which that
        # caller is interrupted}
        self.kill_at = {int(k): int(v) for k, v in (kill_at or {}).items()}
        self.killed = {}
        self.schedule = [max(1, int(q)) for q in schedule]
        self.first = int(first) % 2
        self.timeout = timeout
        self.pos = 0
        self.budget = RUN_OUT
        self.switches = []       # (thread, file, line) at every preemption
        self.events = [0, 0]
        self.workers = []
        self._main = threading.Semaphore(0)

    def _next_quantum(self):
        if self.pos < len(self.schedule):
            q = self.schedule[self.pos]
            self.pos += 1
            return q
        return RUN_OUT

    def _finished(self, index):
        other = self.workers[1 - index]
        if other.done:
            self._main.release()
        else:
            self.budget = self._next_quantum()
            other.sem.release()

    def run(self, fns):
        assert len(fns) == 2
        self.workers = [_Worker(self, i, fn) for i, fn in enumerate(fns)]
        for w in self.workers:
            w.start()
        self.budget = self._next_quantum()
        self.workers[self.first].sem.release()
        if not self._main.acquire(timeout=self.timeout):
            raise Deadlock('interleaved callers did not finish '
                           f'(switches so far: {len(self.switches)})')
        for w in self.workers:
            w.join(self.timeout)
        return [w.result for w in self.workers]
