"""C20 -- calls are pure: inputs untouched, results reproducible and
history-free.

One run = one *session*: a world of read-only caller arrays, one shared
trainer object per trainer class, shared aligner objects, a pool of returned
models and the process-global numpy RNG, driven through a seeded history of
public API calls with faults interleaved.  After every operation:

  O1 inputs untouched      digests of every array reachable from the world
  O2 reproducible          same call again (RNG restored) -> bitwise equal
  O3 history-free          shared, much-used objects == fresh-world replica
                           (or explicit rejection after a dimension change)
  O4 split == whole        cACGMM segments vs one uninterrupted fit, bitwise
  O5 RNG conservation      operations with a given start do not draw
  O6 no leaked global state  np.geterr / printoptions / warning filters /
                           sklearn config / scipy.special errstate / BLAS
                           and OpenMP thread limits / errcall / recursion limit
  O7 late re-execution     a sample of the calls is repeated at the end of
                           the session: same result as the first time
  O8 interleaving-free     two calls issued by two caller threads under a
                           seeded schedule of pre-emptions (sim/interleave.py)
                           each give the result of the call made alone
(+ O3-process-history: a sample of whole runs is repeated in a pristine
   process, see driver.cross_process_check)
"""
import copy
import hashlib
import json

import numpy as np

from . import data, digest as dg, interleave, models, ops, seams
from .seams import SimulatedCancel, SimulatedInterrupt

PROPERTY = 'C20'
# runs re-executed in a pristine process after the batch (driver.cross_process_check)
CROSS_PROCESS_SAMPLE = {'quick': 600, 'thorough': 6000}

RULE = (
    'one run = one seeded program of 5-40 (thorough: up to 60) operations '
    'over the catalogue in sim/ops.py (fit / fit_predict of the 7 mixture '
    'trainers and 6 distribution trainers on SHARED trainer objects, model '
    'methods, cACGMM split / restart jobs, initializers, PSD, all '
    'get_bf_vector names and beamforming primitives, masks, aligners, '
    'metrics, foreign RNG draws, seterr, pairs of calls on two caller '
    'threads under a seeded pre-emption schedule) with fault decorations (interrupt '
    'at the n-th Python line inside pb_bss, cancellation at an EM step, '
    'failing LAPACK call). distinct = distinct schedule signature (sequence '
    'of (entry, trainer kind, D, fault kind fired, outcome class)); '
    'non-trivial = distinct and (>= 3 operations ran on an already used '
    'shared trainer/aligner object, or >= 1 fault actually fired, or a '
    'split job crossed a continuation boundary)')
ASSUMPTIONS = [
    'bitwise comparison: single-threaded BLAS, one process (determinism '
    'self-test watches this)',
    'the replica shares the immutable, digest-verified input arrays with the '
    'world so that memory layout cannot perturb rounding',
    'a world-side exception is accepted only if a fresh trainer raises too, '
    'or the shared trainer was earlier offered another feature dimension',
    'results of operations in which a fault fired are not compared with the '
    'fault-free replica (estimator correctness under faults is C08)',
]
COMPONENTS = {
    'real': ['pb_bss (working tree, hooks on)', 'numpy', 'scipy',
             'scikit-learn', 'BLAS/LAPACK'],
    'stubbed': [],
    'simulator_owned': ['global numpy RNG (state get/set, foreign draws)',
                        'numpy.linalg.{eigh,eig,solve,lstsq} shim',
                        'sys.settrace interrupt injector',
                        'EM step observer (cancellation)',
                        'np.seterr environment',
                        'thread scheduler (two caller threads, one baton, '
                        'seeded pre-emption points)',
                        'BLAS thread limit (caller limit 1 or 2)',
                        'process seam (fork: pristine-process replica)'],
    'outside_catalogue': ['pb_bss.evaluation.wrapper metrics that need pesq / '
                          'stoi / mir_eval / srmr (optional deps not installed)',
                          'pb_bss.transform, pb_bss.testing'],
}


class Skip(Exception):
    """The operation degrades to a no-op (its reference was deleted)."""


class PoolModel:
    def __init__(self, value, kind, origin, root=None, cum=None):
        self.value, self.kind, self.origin = value, kind, origin
        self.root, self.cum = root, cum


class Outcome:
    def __init__(self, kind, value=None, exc=None, fired=None):
        self.kind, self.value, self.exc, self.fired = kind, value, exc, fired

    def cls(self):
        if self.kind == 'raised':
            return 'raised:' + type(self.exc).__name__
        return self.kind


# --------------------------------------------------------------------------
# world and contexts
# --------------------------------------------------------------------------

def _new_trainer(kind, kwargs):
    kwargs = kwargs or {}
    if kind.startswith('dist:'):
        return ops.dist_trainer_class(kind[5:])(**kwargs)
    return models.new_trainer(kind, kwargs)


class World:
    def __init__(self, program):
        self.program = program
        self.arrays = {}          # spec key -> array (read-only)
        self.digests = {}         # spec key -> digest
        self.models = {}          # op index -> PoolModel (world chain)
        self.rmodels = {}         # op index -> PoolModel (replica chain)
        self.trainers = {}        # kind -> shared trainer
        self.trainer_dims = {}    # kind -> list of dims offered so far
        self.trainer_uses = {}    # kind -> number of earlier operations
        self.aligners = {}
        self.aligner_uses = {}
        self.job_rng = {}
        self.tk = program.get('trainer_kwargs', {})
        self.log = []
        self.violations = []
        self.counters = {}
        self.sets = {}
        self.sched = []
        self.reuse_ops = 0
        self.late = []
        self.held = []            # results the caller still holds: (idx, label, value, digest)
        self.faults_fired = 0
        self.boundaries = 0

    def count(self, k, n=1):
        self.counters[k] = self.counters.get(k, 0) + n

    def add(self, k, v):
        self.sets.setdefault(k, set()).add(v)

    def array(self, spec):
        key = json.dumps(spec, sort_keys=True)
        a = self.arrays.get(key)
        if a is None:
            a = data.make(spec)
            self.arrays[key] = a
            self.digests[key] = dg.array_digest(a)
        return key, a

    def model_digests(self):
        out = {}
        for pool_name, pool in (('w', self.models), ('r', self.rmodels)):
            for idx, pm in pool.items():
                for path, arr in dg.arrays_in(pm.value).items():
                    out[(pool_name, idx, path)] = dg.array_digest(arr)
        return out

    def changed_inputs(self, model_digests_before):
        """Paths of world arrays / pooled model arrays whose bytes changed."""
        changed = []
        for key, a in self.arrays.items():
            if dg.array_digest(a) != self.digests[key]:
                spec = json.loads(key)
                changed.append(f'array {spec["kind"]}{spec["shape"]}')
        now = self.model_digests()
        for k, d in model_digests_before.items():
            if k in now and now[k] != d:
                changed.append(f'model[{k[1]}]{k[2]}')
        return changed


class Ctx:
    def __init__(self, world, replica=False, writable=False):
        self.world, self.replica, self.writable = world, replica, writable
        self.copies = {}
        self.guards = []    # (caller-owned list / dict, deep copy before)
        self.used = []      # (trainer kind, dim)
        self.used_aligners = []

    def arr(self, spec):
        key, a = self.world.array(spec)
        if self.writable:
            if key not in self.copies:
                self.copies[key] = data.writable_copy(a)
            return self.copies[key]
        return a

    def model(self, ref):
        pool = self.world.rmodels if self.replica else self.world.models
        if ref not in pool:
            raise Skip(f'model {ref}')
        return pool[ref]

    def trainer(self, kind, kwargs=None, dim=None):
        kw = self.world.tk.get(kind)
        self.used.append((kind, dim))
        if self.replica:
            return _new_trainer(kind, kw)
        t = self.world.trainers.get(kind)
        if t is None:
            t = _new_trainer(kind, kw)
            self.world.trainers[kind] = t
        return t

    def aligner(self, spec):
        key = json.dumps(spec, sort_keys=True)
        self.used_aligners.append(key)
        if spec['kind'] == 'dhtv_default':
            from pb_bss.permutation_alignment import DHTVPermutationAlignment
            make = lambda: DHTVPermutationAlignment.from_stft_size(   # noqa
                spec['stft_size'], spec['similarity_metric'])
        else:
            make = lambda: ops.make_aligner(spec)   # noqa
        if self.replica:
            return make()
        a = self.world.aligners.get(key)
        if a is None:
            a = make()
            self.world.aligners[key] = a
        return a


# --------------------------------------------------------------------------
# running one entry (with optional fault)
# --------------------------------------------------------------------------

def _run_entry(name, ctx, a):
    if name == 'cacgmm.seg':
        return _run_seg(ctx, a)
    return ops.ENTRIES[name].run(ctx, a)


def _run_seg(ctx, a):
    base = a['base']
    if a['src'] is None:
        return ops.run_mm_fit(ctx, base, iterations=a['iterations'])
    m = ctx.model(a['src'])
    init = m.value
    if a.get('copy_model'):
        # continue from an equal copy: the result depends on the model's
        # value, not on the identity of the object the last fit returned
        init = ops.copy_cacgmm(init)
    return ops.run_mm_fit(ctx, base, initialization=init,
                          iterations=a['iterations'])


def call(name, ctx, a, fault=None):
    out = _call(name, ctx, a, fault)
    for obj, before in getattr(ctx, 'guards', ()):
        if obj != before:
            return Outcome('impure', exc=ops.PurityViolation(
                f'a caller-owned {type(obj).__name__} argument was modified: '
                f'{before!r} -> {obj!r}'))
    return out


def _call(name, ctx, a, fault=None):
    fired = None
    try:
        if fault is None:
            return Outcome('ok', _run_entry(name, ctx, a))
        kind = fault['kind']
        if kind == 'interrupt':
            with seams.line_tracer(raise_at=fault['at']) as t:
                try:
                    v = _run_entry(name, ctx, a)
                except SimulatedInterrupt:
                    return Outcome('interrupted', fired=('interrupt', t.fired_site))
            return Outcome('ok', v)
        if kind == 'cancel':
            def obs(trainer, iteration, model, affiliation, **st):
                if iteration == fault['at']:
                    raise SimulatedCancel()
            with seams.observe(obs):
                try:
                    v = _run_entry(name, ctx, a)
                except SimulatedCancel:
                    return Outcome('cancelled', fired=('cancel', fault['at']))
            return Outcome('ok', v)
        if kind == 'lapack':
            with seams.lapack_shim({fault['func']: [fault['k']]}) as shim:
                try:
                    v = _run_entry(name, ctx, a)
                except Skip:
                    raise
                except Exception as e:
                    if shim.fired:
                        return Outcome('raised', exc=e,
                                       fired=('lapack',) + shim.fired[0])
                    return Outcome('raised', exc=e)
            if shim.fired:
                fired = ('lapack',) + shim.fired[0]
            return Outcome('ok', v, fired=fired)
        raise ValueError(kind)
    except Skip:
        return Outcome('skipped')
    except ops.PurityViolation as e:
        return Outcome('impure', exc=e)
    except Exception as e:
        return Outcome('raised', exc=e)


def _draws(name, a):
    if name == 'cacgmm.seg':
        return a['src'] is None and 'num_classes' in a['base']
    d = ops.ENTRIES[name].draws
    if d == 'num_classes':
        return 'num_classes' in a
    return bool(d)


def _rng_equal(s1, s2):
    return s1[0] == s2[0] and np.array_equal(s1[1], s2[1]) and s1[2:] == s2[2:]


def _entry_label(name, a):
    if name in ('bf.primitives', 'mask', 'metric', 'pa.functions', 'dutils.misc'):
        return f'{name}:{a.get("which")}'
    if name == 'bf.get_bf_vector':
        return f'{name}:{a.get("name")}'
    if name == 'bf.psd':
        return f'{name}:{a.get("variant")}'
    if name == 'pa.aligner':
        return f'{name}:{a["aligner"]["kind"]}.{a["method"]}'
    if name == 'initializer.iid':
        return f'{name}:{a["which"]}'
    if name == 'cacg.from_covariance':
        return 'ComplexAngularCentralGaussian.from_covariance'
    if name == 'recycle':
        return 'recycle:' + _entry_label(a['target'], a['a'])
    if name == 'concurrent':
        return 'concurrent:' + '|'.join(_entry_label(x['op'], x['a'])
                                        for x in a['subs'])
    if name.endswith('.fit') and 'method' in a:
        return f'{name[:-4]}.{a["method"]}'
    return name


def _viol(world, oracle, idx, name, a, detail, **kw):
    rec = {'property': 'C20', 'oracle': oracle, 'entry': _entry_label(name, a),
           'op_index': idx, 'detail': detail}
    rec.update(kw)
    world.violations.append(rec)


class _caller_threads:
    """Some sessions run with a caller-chosen BLAS thread limit of 2 (the
    launcher's default is 1): a call must leave the limit as it found it
    (O6).  Not for the scikit-learn wrapper (OpenMP reductions)."""

    def __init__(self, world, name):
        n = world.program.get('blas_threads')
        self.n = n if n and name != 'binarygmm' else None

    def __enter__(self):
        if self.n:
            seams.set_blas_threads(self.n)

    def __exit__(self, *exc):
        if self.n:
            seams.set_blas_threads(1)
        return False


def run_op(world, idx, op):
    with _caller_threads(world, op['op']):
        return _run_op(world, idx, op)


# entry points two caller threads may use at the same time (nothing that
# draws from the process-global RNG: sharing that generator between threads is
# the caller's own race)
CONCURRENT_ENTRIES = [
    'cacgmm.fit', 'cwmm.fit', 'cbmm.fit', 'gmm.fit', 'vmfmm.fit',
    'gcacgmm.fit', 'vmfcacgmm.fit', 'watson.fit', 'gaussian.fit', 'vmf.fit',
    'bingham.fit', 'cacg.fit', 'ccsg.fit', 'model.predict',
    'model.log_likelihood', 'model.component_log_pdf', 'dist.log_pdf',
    'cacg.from_covariance', 'watson.direct', 'normalize_observation',
    'mmu.log_pdf_to_affiliation', 'mmu.estimate_mixture_weight',
    'mmu.apply_inline_permutation_alignment', 'dutils.misc',
    'initializer.flag', 'bf.psd', 'bf.get_bf_vector', 'bf.primitives',
    'mask', 'pa.aligner', 'pa.functions', 'metric', 'metric.wrapper',
    'bf.utils',
]


def gen_concurrent(g):
    """Two calls for two caller threads plus the schedule of pre-emptions."""
    for _ in range(6):
        n1 = g.choice(CONCURRENT_ENTRIES)
        a1 = ops.ENTRIES[n1].gen(g)
        if a1 is None or 'num_classes' in a1:
            continue
        if g.coin(0.7):
            # the same kind of call with other data: same trainer class and
            # dimension, same aligner configuration, same model
            n2, a2 = n1, ops._reseed(g, a1)
            if 'model' in a2 and 'seed' in a2:
                a2['seed'] = g.seed()
                a2['other_data'] = True
        else:
            n2 = g.choice(CONCURRENT_ENTRIES)
            a2 = ops.ENTRIES[n2].gen(g)
            if a2 is None or 'num_classes' in a2:
                continue
        n_sw = int(g.choice([1, 2, 3, 5, 8, 13, 21, 34]))
        schedule = [int(10 ** g.rng.uniform(0, 2.7)) for _ in range(n_sw)]
        out = {'subs': [{'op': n1, 'a': a1}, {'op': n2, 'a': a2}],
               'schedule': schedule, 'first': int(g.rng.randint(2)),
               'share': g.choice(['shared', 'shared', 'separate'])}
        if g.coin(0.2):
            # one of the two callers crashes in the middle of its call
            out['kill'] = {str(int(g.rng.randint(2))):
                           int(10 ** g.rng.uniform(0, 2.8))}
        return out
    return None


def _run_concurrent(world, idx, op):
    a = op['a']
    subs = a['subs']
    shared = a['share'] == 'shared'
    labels = [_entry_label(s['op'], s['a']) for s in subs]
    md_before = world.model_digests()
    rng0 = seams.rng_get()
    # each call made alone, on fresh objects
    refs = []
    for sub in subs:
        seams.rng_set(rng0)
        refs.append(call(sub['op'], Ctx(world, replica=True), sub['a'], None))
    if any(r.kind in ('skipped', 'impure') for r in refs):
        world.log.append([idx, 'concurrent', 'skipped'])
        world.sched.append('skip')
        seams.rng_set(rng0)
        return
    seams.rng_set(rng0)
    gs0 = seams.global_state_snapshot()
    ctxs = [Ctx(world, replica=not shared) for _ in subs]
    err = dict(np.geterr())

    def body(sub, ctx):
        def fn():
            np.seterr(**err)      # the error state of the calling program
            return call(sub['op'], ctx, sub['a'], None)
        return fn

    il = interleave.Interleaver(a['schedule'], a['first'],
                                kill_at=a.get('kill'))
    res = il.run([body(s_, c_) for s_, c_ in zip(subs, ctxs)])
    outs = []
    for i, r in enumerate(res):
        if r[0] == 'ok':
            outs.append(r[1])
        elif isinstance(r[1], SimulatedInterrupt) and i in il.killed:
            outs.append(Outcome('interrupted', fired=('interrupt', il.killed[i])))
            world.faults_fired += 1
            world.count('fault_fired:interrupt_in_caller_thread')
            world.add('interrupt_sites', il.killed[i])
        else:
            raise RuntimeError(f'harness: caller thread died: {r[1]!r}')
    rng1 = seams.rng_get()
    gs1 = seams.global_state_snapshot()
    name = 'concurrent'
    world.count('concurrent_ops')
    world.count('context_switches', len(il.switches))
    world.count('ops_executed')
    for sw in il.switches:
        world.add('preemption_sites', f'{sw[1]}:{sw[2]}')
    world.add('interleavings', dg.digest([labels, il.switches]))
    for lab in labels:
        world.add('entry_points', lab)
        world.add('entry_points_run_concurrently', lab)
    prior_other_dim = False
    reused = False
    if shared:
        for ctx in ctxs:
            for kind, dim in ctx.used:
                if world.trainer_uses.get(kind, 0):
                    reused = True
                if dim is not None and any(
                        d != dim for d in world.trainer_dims.get(kind, [])):
                    prior_other_dim = True
        dims = {}
        for ctx in ctxs:
            for kind, dim in ctx.used:
                dims.setdefault(kind, set()).add(dim)
        if any(len(v) > 1 for v in dims.values()):
            prior_other_dim = True     # the two calls themselves disagree
    if reused:
        world.reuse_ops += 1
    # ---- O1 / O5 / O6 around the pair
    changed = world.changed_inputs(md_before)
    if changed:
        _viol(world, 'O1', idx, name, a,
              f'caller-visible arrays modified: {changed[:4]}')
    if gs1 != gs0:
        _viol(world, 'O6', idx, name, a,
              f'global numpy state changed: {gs0} -> {gs1}')
    if not _rng_equal(rng0, rng1):
        _viol(world, 'O5', idx, name, a,
              'calls without randomness in their contract advanced the '
              'global RNG')
    # ---- O8 every call gives the result of the call made alone.  Deciding
    # only when the two callers share no object: then nothing but hidden
    # module-level state can couple them, which the property forbids.  Two
    # threads inside one shared trainer / aligner are outside the property's
    # quantifier (it speaks of sequences of calls on a reused object): a
    # mismatch there is recorded as by-catch, never as a violation.
    def _viol8(world_, oracle, idx_, name_, a_, detail, **kw):
        if shared:
            world.count('bycatch:shared_object_interleaving_mismatch')
            world.add('bycatch_shared_object_interleaving', detail[:200])
        else:
            _viol(world_, oracle, idx_, name_, a_, detail, **kw)

    for i, (out, ref) in enumerate(zip(outs, refs)):
        if world.violations:
            break
        other = labels[1 - i]
        how = ('sharing trainer / aligner / model objects with it'
               if shared else 'on objects of its own')
        if out.kind in ('skipped', 'interrupted'):
            continue      # no model in this pool / this caller was crashed
        if out.kind == 'impure':
            _viol8(world, 'O8', idx, name, a, f'{labels[i]}: {out.exc}')
        elif out.cls() != ref.cls():
            if out.kind == 'raised' and prior_other_dim:
                world.count('probe:dimension_reject_path')
                continue
            _viol8(world, 'O8', idx, name, a,
                  f'{labels[i]} called while another caller thread runs '
                  f'{other} ({how}) gives {out.cls()}'
                  + (f' ({str(out.exc)[:160]})' if out.exc else '')
                  + f' instead of {ref.cls()} when called alone',
                  switches=len(il.switches))
        elif out.kind == 'ok':
            d = dg.first_difference(out.value, ref.value, 'result')
            if d:
                _viol8(world, 'O8', idx, name, a,
                      f'{labels[i]} called while another caller thread runs '
                      f'{other} ({how}) differs from the same call made '
                      f'alone: {d}', switches=len(il.switches))
            else:
                world.count('interleaved_results_compared')
    if shared:
        for ctx in ctxs:
            for kind, dim in ctx.used:
                world.trainer_uses[kind] = world.trainer_uses.get(kind, 0) + 1
                if dim is not None:
                    world.trainer_dims.setdefault(kind, []).append(dim)
            for key in ctx.used_aligners:
                world.aligner_uses[key] = world.aligner_uses.get(key, 0) + 1
    world.log.append([idx, 'concurrent', labels, [o.cls() for o in outs],
                      [dg.digest(o.value) if o.kind == 'ok' else None
                       for o in outs],
                      dg.digest(il.switches), list(il.events)])
    world.sched.append(('concurrent', tuple(labels), a['share'],
                        len(il.switches), tuple(o.cls() for o in outs)))
    seams.rng_set(rng1)


def _run_op(world, idx, op):
    name = op['op']
    if name == 'concurrent':
        return _run_concurrent(world, idx, op)
    if name == 'env.draws':
        np.random.uniform(size=op['k'])
        world.count('foreign_draws')
        world.log.append([idx, name, seams.rng_digest()])
        world.sched.append('draws')
        return
    if name == 'env.seterr':
        np.seterr(all=op['mode'])
        world.count('seterr')
        world.log.append([idx, name, op['mode']])
        world.sched.append('seterr:' + op['mode'])
        return
    a = op['a']
    fault = op.get('fault')
    md_before = world.model_digests()
    rng0 = seams.rng_get()
    gs0 = seams.global_state_snapshot()
    ctx = Ctx(world)
    out = call(name, ctx, a, fault)
    rng1 = seams.rng_get()
    gs1 = seams.global_state_snapshot()
    if out.kind == 'skipped':
        world.log.append([idx, name, 'skipped'])
        world.sched.append('skip')
        return
    label = _entry_label(name, a)
    if out.kind == 'impure':
        _viol(world, 'O1' if 'was modified' in str(out.exc) else 'O2',
              idx, name, a, str(out.exc), fault=fault)
        world.log.append([idx, label, 'impure'])
        return
    world.count('ops_executed')
    world.count('entry:' + label.split(':')[0])
    world.add('entry_points', label)

    # shared-object bookkeeping (before this op)
    reused = False
    prior_other_dim = False
    for kind, dim in ctx.used:
        uses = world.trainer_uses.get(kind, 0)
        dims = world.trainer_dims.get(kind, [])
        if uses:
            reused = True
        if dim is not None and any(d != dim for d in dims):
            prior_other_dim = True
        t = world.trainers.get(kind)
        world.add('trainer_states', (
            kind, 'bound' if getattr(t, 'dimension', None) is not None else 'unbound',
            'cache' if any(k in getattr(t, '__dict__', {}) for k in (
                'spline', 'complex_watson_trainer', 'complex_bingham_trainer'))
            else 'nocache', min(uses, 5)))
    for key in ctx.used_aligners:
        if world.aligner_uses.get(key, 0):
            reused = True
    if reused:
        world.reuse_ops += 1
        world.count('ops_on_reused_object')

    # ---- O1 inputs untouched
    changed = world.changed_inputs(md_before)
    if changed:
        _viol(world, 'O1', idx, name, a,
              f'caller-visible arrays modified: {changed[:4]}',
              outcome=out.cls(), fault=fault)
    # ---- O1b results the caller still holds from earlier calls are the
    # caller's: no later call may change them
    for h_idx, h_label, h_value, h_digest in world.held:
        if dg.digest(h_value) != h_digest:
            _viol(world, 'O1', idx, name, a,
                  f'the result of an earlier call (operation {h_idx}, '
                  f'{h_label}) that the caller still holds was changed by '
                  f'this call', outcome=out.cls(), fault=fault)
            break
    # ---- O6 no leaked global state
    if gs1 != gs0:
        _viol(world, 'O6', idx, name, a,
              f'global numpy state changed: {gs0} -> {gs1}', fault=fault)
    # ---- O5 RNG conservation
    draws = _draws(name, a)
    if not draws and not _rng_equal(rng0, rng1):
        _viol(world, 'O5', idx, name, a,
              'operation with a given start / no randomness in its contract '
              'advanced the global RNG', outcome=out.cls(), fault=fault)

    fired = out.fired
    entry = [idx, label, out.cls(), dg.digest(out.value) if out.kind == 'ok' else None,
             seams.rng_digest(), list(fired) if fired else None]

    def finish():
        for kind, dim in ctx.used:
            world.trainer_uses[kind] = world.trainer_uses.get(kind, 0) + 1
            if dim is not None:
                world.trainer_dims.setdefault(kind, []).append(dim)
        for key in ctx.used_aligners:
            world.aligner_uses[key] = world.aligner_uses.get(key, 0) + 1
        world.log.append(entry)
        world.sched.append((label.split(':')[0], tuple(ctx.used),
                            fired[0] if fired else None, out.cls()))

    if fired:
        world.faults_fired += 1
        world.count('fault_fired:' + fired[0])
        if fired[0] == 'interrupt':
            world.add('interrupt_sites', fired[1])
        if fired[0] == 'lapack':
            world.add('lapack_fault_sites', f'{fired[1]}@{fired[3]}')
            if out.kind == 'ok':
                world.count('probe:lapack_fault_absorbed_by_fallback')
        finish()
        if world.violations:
            return
        seams.rng_set(rng1)
        return
    if fault is not None:
        world.count('fault_configured_not_reached:' + fault['kind'])

    if world.violations:
        finish()
        return

    # ---- O2 reproducible (same world, RNG restored); every other operation
    # is repeated under np.errstate(all='ignore'): values must not depend on
    # the caller's error state (unless that state is 'raise', where a warning
    # legitimately becomes an exception)
    seams.rng_set(rng0)
    ctx2 = Ctx(world)
    other_errstate = (idx % 2 == 0
                      and 'raise' not in np.geterr().values())
    if other_errstate:
        with np.errstate(all='ignore'):
            out2 = call(name, ctx2, a, None)
        world.count('o2_repeats_under_other_errstate')
    else:
        out2 = call(name, ctx2, a, None)
    rng2 = seams.rng_get()
    if out2.cls() != out.cls():
        _viol(world, 'O2', idx, name, a,
              f'repeating the call gives {out2.cls()} instead of {out.cls()}'
              + (f' ({out2.exc})' if out2.exc else '')
              + (' [repeat under np.errstate(all="ignore")]'
                 if other_errstate else ''))
    elif out.kind == 'ok':
        d = dg.first_difference(out.value, out2.value, 'result')
        if d:
            _viol(world, 'O2', idx, name, a,
                  'repeating the call (RNG restored) changes the result: ' + d)
        elif not _rng_equal(rng1, rng2):
            _viol(world, 'O2', idx, name, a,
                  'repeating the call leaves a different RNG state')
    if draws and out.kind == 'ok':
        world.count('probe:rng_started_op_repeated')

    # ---- O3 history-free (fresh-world replica)
    seams.rng_set(rng0)
    ctx3 = Ctx(world, replica=True)
    out3 = call(name, ctx3, a, None)
    if out.kind == 'ok' and out3.kind == 'ok':
        d = dg.first_difference(out.value, out3.value, 'result')
        if d:
            _viol(world, 'O3', idx, name, a,
                  'result on the shared (reused) objects differs from a '
                  'fresh-world replica: ' + d,
                  trainer_history=[[k, world.trainer_dims.get(k, [])]
                                   for k, _ in ctx.used])
        if draws:
            world.count('probe:rng_started_fit_compared_with_replica')
    elif out.kind == 'raised' and out3.kind == 'ok':
        if prior_other_dim:
            world.count('probe:dimension_reject_path')
        else:
            _viol(world, 'O3', idx, name, a,
                  f'shared objects raise {type(out.exc).__name__}: '
                  f'{str(out.exc)[:200]!r} where a fresh world succeeds',
                  trainer_history=[[k, world.trainer_dims.get(k, [])]
                                   for k, _ in ctx.used])
    elif out.kind == 'ok' and out3.kind == 'raised':
        _viol(world, 'O3', idx, name, a,
              f'fresh world raises {type(out3.exc).__name__}: '
              f'{str(out3.exc)[:200]!r} where the used one succeeds')
    elif out.kind == 'raised' and out3.kind == 'raised':
        world.count('both_raise')
        world.add('exceptions', f'{label.split(":")[0]}:{type(out3.exc).__name__}')
        # read-only inputs must be accepted: does it work on writable copies?
        seams.rng_set(rng0)
        ctx4 = Ctx(world, replica=True, writable=True)
        out4 = call(name, ctx4, a, None)
        if out4.kind == 'ok':
            mutated = [k for k, c in ctx4.copies.items()
                       if dg.array_digest(c) != world.digests[k]]
            _viol(world, 'O1', idx, name, a,
                  f'read-only inputs are rejected ({type(out3.exc).__name__}: '
                  f'{str(out3.exc)[:120]!r}) but writeable copies are accepted'
                  + (' and MODIFIED' if mutated else ' (not modified)'),
                  mutated=bool(mutated))
    elif out3.kind == 'skipped':
        pass

    # ---- O2b result ownership: what a call returns belongs to the caller.
    # Every third operation: obtain a result, overwrite its (writable) arrays,
    # call again -- the new result must be the original one.  A library that
    # hands out its own cached arrays fails this.
    cheap = name in ops.ENTRIES and ops.ENTRIES[name].group in (
        'mask', 'beamformer', 'alignment', 'metric', 'initializer', 'mmutils')
    if (cheap or idx % 3 == 1) and out.kind == 'ok' and not world.violations:
        seams.rng_set(rng0)
        out_s = call(name, Ctx(world), a, None)
        if out_s.kind == 'ok':
            scribbled = 0
            # memory the caller already owns (models returned earlier, the
            # first result of this very call) may legitimately be aliased by
            # a result (to_dict(), views): never write there
            owned = [x for pool in (world.models, world.rmodels)
                     for pm in pool.values()
                     for x in dg.arrays_in(pm.value).values()]
            earlier = list(dg.arrays_in(out.value).values())
            earlier += list(dg.arrays_in(out2.value).values()) if out2.kind == 'ok' else []
            earlier += list(dg.arrays_in(out3.value).values()) if out3.kind == 'ok' else []
            shared_results = False
            for arr in dg.arrays_in(out_s.value).values():
                if any(np.may_share_memory(arr, o) for o in owned):
                    continue
                if any(np.may_share_memory(arr, o) for o in earlier):
                    # writable memory handed out by two different calls: a
                    # write of the caller into one result changes the other
                    if arr.flags.writeable and arr.size:
                        shared_results = True
                    continue
                if arr.flags.writeable and arr.size:
                    try:
                        arr[...] = -7 if arr.dtype.kind in 'iufc' else False
                        scribbled += 1
                    except (ValueError, TypeError):
                        pass
            if shared_results:
                _viol(world, 'O2', idx, name, a,
                      'two calls with the same arguments return arrays that '
                      'share writable memory: what the caller writes into one '
                      'result shows up in the other (results are handed out '
                      'from library-internal state)')
            if scribbled and not world.violations:
                md_mid = world.changed_inputs(md_before)
                seams.rng_set(rng0)
                out_t = call(name, Ctx(world), a, None)
                world.count('result_ownership_checks')
                if md_mid:
                    raise RuntimeError('harness: scribbling changed caller-'
                                       f'visible arrays {md_mid[:3]}')
                elif out_t.kind == 'ok' and dg.digest(out_t.value) != dg.digest(out.value):
                    _viol(world, 'O2', idx, name, a,
                          'after the caller wrote into the arrays of an '
                          'earlier result, the same call returns something '
                          'else: results share memory with library-internal '
                          'state')

    # ---- O4 split == whole (cACGMM jobs)
    if name == 'cacgmm.seg' and out.kind == 'ok' and not world.violations:
        root = idx if a['src'] is None else world.models[a['src']].root
        if a['src'] is None:
            world.job_rng[idx] = rng0
        else:
            world.boundaries += 1
            world.count('probe:split_boundary_crossed')
            if a.get('restart'):
                world.count('probe:restart_from_older_checkpoint')
            seams.rng_set(world.job_rng[root])
            # the segments may have run under different np.seterr
            # environments (env.seterr operations in between); values do not
            # depend on the error state, only whether a warning becomes an
            # exception does -- the reference fit runs under the default one
            with np.errstate(all='warn'):
                whole = call('cacgmm.fit', Ctx(world, replica=True),
                             dict(a['base'], iterations=a['cum'], method='fit'),
                             None)
            world.count('o4_comparisons')
            if whole.kind != 'ok':
                _viol(world, 'O4', idx, name, a,
                      f'uninterrupted fit of {a["cum"]} iterations raises '
                      f'{whole.cls()} but the split one succeeded')
            else:
                d = dg.first_difference(out.value, whole.value, 'model')
                if d:
                    _viol(world, 'O4', idx, name, a,
                          f'fit split into consecutive continued fits (total '
                          f'{a["cum"]} iterations) differs from the '
                          f'uninterrupted fit: ' + d)

    # ---- pools
    rm = ops.ENTRIES[name].returns_model if name in ops.ENTRIES else None
    if name == 'cacgmm.seg':
        root = idx if a['src'] is None else world.models[a['src']].root
        if out.kind == 'ok':
            world.models[idx] = PoolModel(out.value, 'cacgmm', a['base'], root, a['cum'])
        if out3.kind == 'ok':
            world.rmodels[idx] = PoolModel(out3.value, 'cacgmm', a['base'], root, a['cum'])
    elif rm and a.get('method', 'fit') == 'fit':
        origin = a
        if name == 'cacgmm.continue':
            origin = world.models[a['model']].origin
        if out.kind == 'ok':
            world.models[idx] = PoolModel(out.value, rm, origin)
        if out3.kind == 'ok':
            world.rmodels[idx] = PoolModel(out3.value, rm, origin)
    if out.kind == 'ok':
        world.late.append((idx, name, a, rng0, dg.digest(out.value), label))
        world.held.append((idx, label, out.value, dg.digest(out.value)))
        del world.held[:-6]
        world.count('held_result_checks', len(world.held))
    seams.rng_set(rng1)
    finish()


def late_reexecution(world, limit=10):
    """O7: at the end of the session a sample of the operations is executed
    once more on the (by now much more used) shared objects and process, with
    the RNG state it had the first time.  A different result means the call
    depends on what ran in between (e.g. a module-level scratch buffer or
    memo).  Operations that are now rejected (dimension binding) are skipped."""
    items = world.late
    if len(items) > limit:
        pick = sorted(set(int(round(x)) for x in
                          np.linspace(0, len(items) - 1, limit)))
        items = [items[i] for i in pick]
    rng_end = seams.rng_get()
    for idx, name, a, rng0, digest0, label in items:
        seams.rng_set(rng0)
        with _caller_threads(world, name):
            out = call(name, Ctx(world), a, None)
        world.count('late_reexecutions')
        if out.kind != 'ok':
            continue
        if dg.digest(out.value) != digest0:
            _viol(world, 'O7', idx, name, a,
                  'executing the same call again at the end of the session '
                  '(same arguments, same RNG state) gives a different result: '
                  'it depends on the calls made in between')
            break
    seams.rng_set(rng_end)


# --------------------------------------------------------------------------
# execute
# --------------------------------------------------------------------------

def execute(program):
    models.COPY_INPUTS = False
    saved_err = np.geterr()
    world = World(program)
    seams.rng_seed(program['rng_seed'])
    try:
        for idx, op in enumerate(program['ops']):
            run_op(world, idx, op)
            if world.violations:
                break
        if not world.violations:
            late_reexecution(world)
    finally:
        np.seterr(**saved_err)
    sig = hashlib.sha1(repr(world.sched).encode()).hexdigest()[:16]
    digest = hashlib.sha256(
        json.dumps(world.log, default=str).encode()).hexdigest()[:24]
    world.count('ops', len(program['ops']))
    nontrivial = (world.reuse_ops >= 3 or world.faults_fired >= 1
                  or world.boundaries >= 1
                  or world.counters.get('context_switches', 0) >= 1)
    return {
        'digest': digest, 'signature': sig, 'nontrivial': nontrivial,
        'log': json.loads(json.dumps(world.log, default=str)),
        'counters': world.counters,
        'sets': {k: sorted(v, key=repr) for k, v in world.sets.items()},
        'violations': world.violations,
    }


# --------------------------------------------------------------------------
# generation
# --------------------------------------------------------------------------

MIX_KINDS = list(models.MIXTURES)


def _weighted_choice(rng, items, weights):
    w = np.asarray(weights, dtype=float)
    return items[int(rng.choice(len(items), p=w / w.sum()))]


def _gen_fault(g, name, a, enabled):
    if not enabled or not g.coin(0.25):
        return None
    kind = g.choice(enabled)
    if kind == 'interrupt':
        return {'kind': 'interrupt', 'at': int(10 ** g.rng.uniform(0, 2.8)) - 1}
    if kind == 'cancel':
        if not (name.endswith('.fit') and name.split('.')[0] in MIX_KINDS) \
                and name not in ('cacgmm.seg', 'cacgmm.continue'):
            return None
        its = a.get('iterations', 1)
        return {'kind': 'cancel', 'at': int(g.rng.randint(0, max(1, its)))}
    if kind == 'lapack':
        return {'kind': 'lapack', 'func': g.choice(['eigh', 'eigh', 'eig', 'solve', 'lstsq']),
                'k': int(g.choice([0, 0, 1, 2, 3]))}
    return None


def generate(run_seed, tier='quick'):
    rng = np.random.RandomState(run_seed % (2 ** 32))
    thorough = tier == 'thorough'
    dims = sorted(set(int(d) for d in rng.choice(
        [2, 3, 4, 5, 6, 7, 8] if thorough else [2, 3, 4, 5, 6],
        size=int(rng.randint(1, 4)), replace=False)))
    g = ops.G(rng, dims, thorough)
    g.big = bool(rng.uniform() < (0.10 if thorough else 0.06))
    mode = g.choice(['reuse', 'split', 'broad'])
    if rng.uniform() < 0.05:
        # a session of the stateless modules on large inputs (size-dependent
        # code paths: blockwise processing, "in place if large", scratch
        # buffers): metrics on long recordings, masks / PSDs / aligners on
        # many frames
        mode, g.big = 'big', True
    fault_kinds = g.choice([[], [], ['interrupt'], ['cancel'], ['lapack'],
                            ['interrupt', 'cancel', 'lapack']])
    n_ops = int(rng.randint(5, 61 if thorough else 26))
    names = sorted(ops.ENTRIES)
    # swarm: a random subset of entry groups is enabled per run
    groups = sorted({ops.ENTRIES[n].group for n in names})
    enabled_groups = [gr for gr in groups if g.coin(0.6)] or ['mixture']
    if mode != 'broad' and 'mixture' not in enabled_groups:
        enabled_groups.append('mixture')
    trainer_kwargs = {}
    if g.coin(0.3):
        trainer_kwargs['cwmm'] = g.choice([{'max_concentration': 100},
                                           {'dimension': int(g.choice(dims))},
                                           {'spline_markers': 300},
                                           {'max_concentration': 700}])
    if g.coin(0.2):
        trainer_kwargs['dist:watson'] = g.choice(
            [{'max_concentration': 100}, {'dimension': int(g.choice(dims))},
             {'max_concentration': 700}])
    if g.coin(0.15):
        trainer_kwargs['cbmm'] = {'max_concentration': 200.0}
    program_ops = []

    def push(name, a):
        if a is None:
            return False
        op = {'op': name, 'a': a, 'fault': _gen_fault(g, name, a, fault_kinds)}
        program_ops.append(op)
        rm = ops.ENTRIES[name].returns_model if name in ops.ENTRIES else None
        if op['fault'] is None:
            if name == 'cacgmm.seg':
                g.models.append((len(program_ops) - 1, 'cacgmm'))
            elif rm and a.get('method', 'fit') == 'fit':
                g.models.append((len(program_ops) - 1, rm))
        return True

    p_conc = float(g.choice([0.0, 0.0, 0.1, 0.3]))

    def concurrent_op():
        if p_conc and g.coin(p_conc):
            a = gen_concurrent(g)
            if a is not None:
                program_ops.append({'op': 'concurrent', 'a': a, 'fault': None})

    def env_ops():
        concurrent_op()
        if g.coin(0.12):
            program_ops.append({'op': 'env.draws', 'k': int(rng.randint(1, 40))})
        if g.coin(0.04):
            program_ops.append({'op': 'env.seterr',
                                'mode': g.choice(['raise', 'warn', 'ignore'])})

    if mode == 'big':
        fault_kinds = []
        pool = [n for n in names if ops.ENTRIES[n].group in (
            'metric', 'metric', 'mask', 'beamformer', 'alignment')
            or n == 'binarygmm']
        weights = [ops.ENTRIES[n].weight * (4 if ops.ENTRIES[n].group == 'metric' else 1)
                   for n in pool]
        for _ in range(int(rng.randint(6, 13))):
            name = _weighted_choice(rng, pool, weights)
            push(name, ops.ENTRIES[name].gen(g))
    elif mode == 'reuse':
        kinds = [g.choice(['cwmm', 'cwmm', 'cbmm', 'cacgmm', 'gmm', 'vmfmm',
                           'gcacgmm', 'vmfcacgmm', 'dist:watson',
                           'dist:watson', 'dist:bingham'])
                 for _ in range(int(g.choice([1, 2])))]
        while len(program_ops) < max(n_ops, 7):
            k = g.choice(kinds)
            if k.startswith('dist:'):
                push(k[5:] + '.fit', ops.gen_dist_fit(g, k[5:]))
                if g.coin(0.3):
                    push('dist.log_pdf', ops.ENTRIES['dist.log_pdf'].gen(g))
            else:
                push(k + '.fit', ops.gen_mm_fit(g, k))
                if g.coin(0.3):
                    push('model.predict', ops.ENTRIES['model.predict'].gen(g))
            env_ops()
    elif mode == 'split':
        jobs = []
        for _ in range(int(g.choice([1, 2, 3]))):
            n = int(rng.randint(2, 21))
            parts = int(rng.randint(2, 5))
            parts = min(parts, n)
            cuts = sorted(rng.choice(np.arange(1, n), size=parts - 1, replace=False))
            edges = [0] + [int(c) for c in cuts] + [n]
            base = ops.gen_mm_fit(g, 'cacgmm', method='fit', iterations=1)
            jobs.append({'base': base, 'segs': [edges[i + 1] - edges[i]
                                                 for i in range(parts)],
                         'done': [], 'restart': g.coin(0.4)})
        active = list(range(len(jobs)))
        while active:
            j = g.choice(active)
            job = jobs[j]
            i = len(job['done'])
            if i < len(job['segs']):
                m = job['segs'][i]
                src = job['done'][-1][0] if job['done'] else None
                cum = (job['done'][-1][1] if job['done'] else 0) + m
                ok = push('cacgmm.seg', {'base': job['base'], 'src': src,
                                         'iterations': m, 'cum': cum,
                                         'copy_model': bool(src is not None
                                                            and g.coin(0.3))})
                if program_ops[-1]['fault'] is not None:
                    # a crashed segment: it is retried
                    pass
                else:
                    job['done'].append((len(program_ops) - 1, cum))
            else:
                if job['restart'] and len(job['done']) >= 2:
                    # a crash lost the later checkpoints: restart from an
                    # older one
                    k = int(rng.randint(0, len(job['done']) - 1))
                    sidx, scum = job['done'][k]
                    m = int(rng.randint(1, max(2, 21 - scum)))
                    m = min(m, 20 - scum) or 1
                    if scum + m <= 20:
                        push('cacgmm.seg', {'base': job['base'], 'src': sidx,
                                            'iterations': m, 'cum': scum + m,
                                            'restart': True})
                active.remove(j)
            # other tenants between the segments
            if g.coin(0.4):
                k = g.choice(['cacgmm', 'cacgmm', 'cwmm', 'gmm'])
                push(k + '.fit', ops.gen_mm_fit(g, k))
            env_ops()
            if len(program_ops) > (70 if thorough else 40):
                break
    else:
        pool = [n for n in names if ops.ENTRIES[n].group in enabled_groups]
        weights = [ops.ENTRIES[n].weight for n in pool]
        tries = 0
        while len(program_ops) < n_ops and tries < 10 * n_ops:
            tries += 1
            name = _weighted_choice(rng, pool, weights)
            push(name, ops.ENTRIES[name].gen(g))
            env_ops()
    # after a faulted operation on a shared trainer the next fault-free fit
    # must work: make sure one follows
    final = []
    for op in program_ops:
        final.append(op)
        if op.get('fault') and op['op'].endswith('.fit') and g.coin(0.7):
            follow = copy.deepcopy(op)
            follow['fault'] = None
            final.append(follow)
    # indices moved: model references are by op index -> remap
    final = _remap_after_insert(program_ops, final)
    rng_seed = int(rng.randint(2 ** 31))
    return {'prop': 'C20', 'mode': mode, 'dims': dims,
            'fault_kinds': fault_kinds, 'trainer_kwargs': trainer_kwargs,
            'rng_seed': rng_seed, 'ops': final, 'tier': tier,
            'blas_threads': 2 if rng.uniform() < 0.15 else None}


def _remap_after_insert(old_ops, new_ops):
    pos = {}
    j = 0
    for i, op in enumerate(old_ops):
        while new_ops[j] is not op:
            j += 1
        pos[i] = j
        j += 1
    out = []
    for op in new_ops:
        if op.get('op') in ('env.draws', 'env.seterr'):
            out.append(op)
            continue
        op = copy.deepcopy(op)
        for a in _ref_holders(op['a']):
            if isinstance(a.get('model'), int):
                a['model'] = pos[a['model']]
            if isinstance(a.get('src'), int):
                a['src'] = pos[a['src']]
        out.append(op)
    return out


def _ref_holders(a):
    """The dicts of an operation's arguments that may hold a model reference
    (the arguments themselves and, for wrapping operations such as 'recycle',
    the wrapped arguments)."""
    out = [a]
    if isinstance(a.get('a'), dict):
        out.append(a['a'])
    for sub in a.get('subs', ()):
        out.append(sub['a'])
    return out


# --------------------------------------------------------------------------
# shrinking
# --------------------------------------------------------------------------

def _drop(program, i):
    q = copy.deepcopy(program)
    del q['ops'][i]
    for op in q['ops']:
        if not op.get('a'):
            continue
        for a in _ref_holders(op['a']):
            for key in ('model', 'src'):
                if isinstance(a.get(key), int):
                    if a[key] == i:
                        a[key] = -1
                    elif a[key] > i:
                        a[key] -= 1
    return q


def shrink_candidates(program):
    n = len(program['ops'])
    # halves, quarters, then single operations (ddmin style)
    chunk = n // 2
    while chunk >= 2:
        for start in range(0, n, chunk):
            q = program
            for i in reversed(range(start, min(n, start + chunk))):
                if len(q['ops']) > 1:
                    q = _drop(q, i)
            if len(q['ops']) < n:
                yield q
        chunk //= 2
    for i in reversed(range(n)):
        if n > 1:
            yield _drop(program, i)
    for i, op in enumerate(program['ops']):
        if op.get('fault'):
            q = copy.deepcopy(program)
            q['ops'][i]['fault'] = None
            yield q
    if program.get('trainer_kwargs'):
        q = copy.deepcopy(program)
        q['trainer_kwargs'] = {}
        yield q
    for i, op in enumerate(program['ops']):
        if op.get('op') == 'concurrent':
            sch = op['a']['schedule']
            for new in ([], sch[:len(sch) // 2], sch[:-1], sch[1:]):
                if len(new) < len(sch):
                    q = copy.deepcopy(program)
                    q['ops'][i]['a']['schedule'] = new
                    yield q
            if op['a']['share'] == 'shared':
                q = copy.deepcopy(program)
                q['ops'][i]['a']['share'] = 'separate'
                yield q
            if op['a'].get('kill'):
                q = copy.deepcopy(program)
                del q['ops'][i]['a']['kill']
                yield q
    def edit(i, fn):
        """Apply ``fn(target_dict)`` to op i and -- for a split job -- to every
        segment sharing the same base (a job's segments must keep identical
        options)."""
        q = copy.deepcopy(program)
        ai = q['ops'][i]['a']
        if 'base' in ai:
            key = json.dumps(program['ops'][i]['a']['base'], sort_keys=True)
            for j, o in enumerate(program['ops']):
                if o.get('op') == 'cacgmm.seg' and json.dumps(
                        o['a']['base'], sort_keys=True) == key:
                    fn(q['ops'][j]['a']['base'])
        else:
            fn(ai)
        return q

    for i, op in enumerate(program['ops']):
        a = op.get('a')
        if not a:
            continue
        target = a.get('base', a)
        if isinstance(target.get('iterations'), int) and target['iterations'] > 1 \
                and op['op'] != 'cacgmm.seg':
            q = copy.deepcopy(program)
            (q['ops'][i]['a'].get('base') or q['ops'][i]['a'])['iterations'] = 1
            yield q
        for key in ('saliency', 'sam', 'aligner', 'fixed_covariance'):
            if key in target:
                yield edit(i, lambda t, key=key: t.pop(key, None))
        if target.get('opts'):
            for k in list(target['opts']):
                yield edit(i, lambda t, k=k: t['opts'].pop(k, None))
        for k, v in target.items():
            if isinstance(v, dict) and 'layout' in v and v['layout'] != 'C':
                yield edit(i, lambda t, k=k: t[k].__setitem__('layout', 'C'))
            if isinstance(v, dict) and v.get('dtype') in ('complex64', 'float32'):
                yield edit(i, lambda t, k=k: t[k].pop('dtype'))


# --------------------------------------------------------------------------
# fixed catalogue: complete enumeration of interrupt positions
# --------------------------------------------------------------------------

ENUM_CAP = 3000      # line events above which positions are sampled
ENUM_SAMPLE = 300


def _fixed_ops(tier):
    """A fixed (seed-independent) list of small operations: one small fit per
    trainer class (13); in the thorough tier additionally one operation per
    catalogue entry / variant."""
    out = []
    rng = np.random.RandomState(20201)
    g = ops.G(rng, [3], False)
    for kind in models.MIXTURES:
        a = ops.gen_mm_fit(g, kind, method='fit', D=3 if kind != 'cbmm' else 2,
                           iterations=2 if kind != 'cbmm' else 1)
        out.append({'op': kind + '.fit', 'a': a, 'fault': None})
    for kind in ops.DIST:
        a = ops.gen_dist_fit(g, kind, D=3 if kind != 'bingham' else 2)
        out.append({'op': kind + '.fit', 'a': a, 'fault': None})
    # one operation of each stateless family that keeps objects or global
    # state around calls: aligners (shared objects), GEV (error paths),
    # masks, metrics
    rng = np.random.RandomState(20203)
    g = ops.G(rng, [3], False)
    for spec in ({'kind': 'dhtv', 'stft_size': 16, 'segment_start': 2,
                  'segment_width': 3, 'segment_shift': 1, 'main_iterations': 2,
                  'sub_iterations': 1, 'similarity_metric': 'cos',
                  'algorithm': 'greedy'},
                 {'kind': 'greedy', 'similarity_metric': 'euclidean',
                  'algorithm': 'optimal'}):
        out.append({'op': 'pa.aligner', 'fault': None, 'a': {
            'aligner': spec, 'method': 'call',
            'mask': g.arr('affiliation', [2, 9, 6], reuse=False)}})
    Dq, Fq, pair = ops._psd_pair(g)
    out.append({'op': 'bf.get_bf_vector', 'fault': None,
                'a': dict(pair, name='gev+ban', kw={})})
    out.append({'op': 'bf.get_bf_vector', 'fault': None,
                'a': dict(pair, name='rank1_gev+mvdr_souden', kw={})})
    a = ops.ENTRIES['metric'].gen(g)
    a['which'] = 'input_sxr_dict'
    out.append({'op': 'metric', 'a': a, 'fault': None})
    a = ops.ENTRIES['mask'].gen(g)
    a['which'] = 'wiener_like'
    out.append({'op': 'mask', 'a': a, 'fault': None})
    if tier == 'thorough':
        seen = set()
        rng = np.random.RandomState(20202)
        g = ops.G(rng, [2, 3], False)
        names = sorted(ops.ENTRIES)
        for rounds in range(40):
            for name in names:
                e = ops.ENTRIES[name]
                if e.group in ('mixture', 'distribution') and name.endswith('.fit') \
                        and rounds > 3:
                    continue
                a = e.gen(g)
                if a is None:
                    continue
                label = _entry_label(name, a)
                if label in seen:
                    continue
                seen.add(label)
                out.append({'op': name, 'a': a, 'fault': None})
    return out


def _count_events(op):
    """Number of Python line events inside pb_bss for one fault-free
    execution of ``op`` in a fresh world (and the distinct sites)."""
    program = {'ops': [op], 'rng_seed': 1, 'trainer_kwargs': {}}
    world = World(program)
    seams.rng_seed(1)
    with seams.line_tracer(collect_sites=True) as t:
        out = call(op['op'], Ctx(world), op['a'], None)
    return t.count, len(t.sites), out.cls()


def _enum_chunk(op, positions):
    res = []
    for n in positions:
        follow = copy.deepcopy(op)
        first = copy.deepcopy(op)
        first['fault'] = {'kind': 'interrupt', 'at': int(n)}
        program = {'prop': 'C20', 'mode': 'enum', 'ops': [first, follow],
                   'rng_seed': 1, 'trainer_kwargs': {}, 'tier': 'enum'}
        r = execute(program)
        res.append((n, r['violations'], r['sets'].get('interrupt_sites', []),
                    program if r['violations'] else None))
    return res


def _count_lapack_c20(op):
    from . import driver
    if 'ok' not in driver._INIT:
        driver._worker_init()
    program = {'ops': [op], 'rng_seed': 1, 'trainer_kwargs': {}}
    world = World(program)
    seams.rng_seed(1)
    with seams.lapack_shim({}) as shim:
        call(op['op'], Ctx(world), op['a'], None)
    return dict(shim.counts)


def _enum_lapack_c20(op, func, ks):
    from . import driver
    if 'ok' not in driver._INIT:
        driver._worker_init()
    res = []
    for k in ks:
        first = copy.deepcopy(op)
        first['fault'] = {'kind': 'lapack', 'func': func, 'k': int(k)}
        follow = copy.deepcopy(op)
        program = {'prop': 'C20', 'mode': 'enum', 'ops': [first, follow],
                   'rng_seed': 1, 'trainer_kwargs': {}, 'tier': 'enum'}
        r = execute(program)
        res.append((func, k, r['violations'], r['counters'],
                    program if r['violations'] else None))
    return res


def _fixed_pairs(tier):
    """Pairs of small calls for the complete single-pre-emption enumeration:
    caller thread 0 runs k line events, caller thread 1 then runs its whole
    call, thread 0 finishes -- for every k (and the mirror image)."""
    rng = np.random.RandomState(20204)
    g = ops.G(rng, [3], False)
    pairs = []
    spec = {'kind': 'dhtv', 'stft_size': 16, 'segment_start': 2,
            'segment_width': 3, 'segment_shift': 1, 'main_iterations': 2,
            'sub_iterations': 1, 'similarity_metric': 'cos',
            'algorithm': 'greedy'}
    mk = lambda: {'op': 'pa.aligner', 'a': {                      # noqa
        'aligner': spec, 'method': 'call',
        'mask': g.arr('affiliation', [2, 9, 6], reuse=False)}}
    pairs.append((mk(), mk()))
    kinds = ['cwmm', 'cacgmm'] if tier != 'thorough' else \
        ['cwmm', 'cacgmm', 'cbmm', 'gmm', 'vmfmm', 'gcacgmm', 'vmfcacgmm']
    for kind in kinds:
        for _ in range(20):
            a1 = ops.gen_mm_fit(g, kind, method='fit',
                                D=3 if kind != 'cbmm' else 2,
                                iterations=2 if kind != 'cbmm' else 1)
            if 'num_classes' not in a1 and 'aligner' not in a1:
                break
        pairs.append(({'op': kind + '.fit', 'a': a1},
                      {'op': kind + '.fit', 'a': ops._reseed(g, a1)}))
    Dq, Fq, pair = ops._psd_pair(g)
    a1 = dict(pair, name='gev+ban', kw={})
    pairs.append(({'op': 'bf.get_bf_vector', 'a': a1},
                  {'op': 'bf.get_bf_vector', 'a': ops._reseed(g, a1)}))
    if tier == 'thorough':
        for kind in ('watson', 'bingham', 'gaussian'):
            a1 = ops.gen_dist_fit(g, kind, D=3 if kind != 'bingham' else 2)
            pairs.append(({'op': kind + '.fit', 'a': a1},
                          {'op': kind + '.fit', 'a': ops._reseed(g, a1)}))
        a1 = ops.ENTRIES['mask'].gen(g)
        pairs.append(({'op': 'mask', 'a': a1},
                      {'op': 'mask', 'a': ops._reseed(g, a1)}))
        a1 = ops.ENTRIES['metric'].gen(g)
        a1['which'] = 'input_sxr_dict'
        pairs.append(({'op': 'metric', 'a': a1},
                      {'op': 'metric', 'a': ops._reseed(g, a1)}))
    return pairs


def _preempt_worker(pair, first, positions):
    from . import driver
    if 'ok' not in driver._INIT:
        driver._worker_init()
    res = []
    for k in positions:
        program = {'prop': 'C20', 'mode': 'enum', 'rng_seed': 1,
                   'trainer_kwargs': {}, 'tier': 'enum', 'ops': [{
                       'op': 'concurrent', 'fault': None,
                       'a': {'subs': [copy.deepcopy(pair[0]),
                                      copy.deepcopy(pair[1])],
                             'schedule': [int(k)], 'first': first,
                             'share': 'shared'}}]}
        r = execute(program)
        viols, prog = r['violations'], program
        # the same pre-emption with objects of their own: deciding for O8
        program2 = copy.deepcopy(program)
        program2['ops'][0]['a']['share'] = 'separate'
        r2 = execute(program2)
        if r2['violations'] and not viols:
            viols, prog = r2['violations'], program2
        res.append((k, viols,
                    r['counters'].get('context_switches', 0),
                    r['sets'].get('preemption_sites', []),
                    prog if viols else None,
                    r['counters'].get(
                        'bycatch:shared_object_interleaving_mismatch', 0)))
    return res


def _enum_worker(op, positions):
    from . import driver
    if 'ok' not in driver._INIT:
        driver._worker_init()
    return _enum_chunk(op, positions)


def _count_worker(op):
    from . import driver
    if 'ok' not in driver._INIT:
        driver._worker_init()
    return _count_events(op)


def fixed_catalogue(tier, workers, log):
    import time
    from . import driver
    t0 = time.time()
    catalogue = _fixed_ops(tier)
    violations = []
    per_entry = []
    total_positions = 0
    sites = set()
    with driver.make_pool(workers) as pool:
        counts = list(pool.map(_count_worker, catalogue))
        futs = []
        for op, (n_events, n_sites, outcome) in zip(catalogue, counts):
            label = _entry_label(op['op'], op['a'])
            # operations with very many line events (the shipped DHTV plan on
            # 257 bins: > 10^5) are sampled with an even stride, and say so
            if n_events > ENUM_CAP:
                positions = sorted(set(
                    int(x) for x in np.linspace(0, n_events - 1, ENUM_SAMPLE)))
            else:
                positions = list(range(n_events))
            per_entry.append({'entry': label, 'line_events': n_events,
                              'positions_enumerated': len(positions),
                              'complete': len(positions) == n_events,
                              'distinct_sites': n_sites, 'outcome': outcome})
            total_positions += len(positions)
            step = max(1, len(positions) // (4 * workers) + 1)
            for s in range(0, len(positions), step):
                futs.append((label, pool.submit(
                    _enum_worker, op, positions[s:s + step])))
        # complete single-pre-emption enumeration of pairs of calls
        pairs = _fixed_pairs(tier)
        pre_futs = []
        pre_entries = []
        for pair in pairs:
            for first in (0, 1):
                sub = pair[first]
                n_events = _count_events({'op': sub['op'], 'a': sub['a'],
                                          'fault': None})[0]
                if n_events > ENUM_CAP:
                    positions = sorted(set(int(x) for x in np.linspace(
                        1, n_events, ENUM_SAMPLE)))
                else:
                    positions = list(range(1, n_events + 1))
                pre_entries.append({
                    'pair': [_entry_label(x['op'], x['a']) for x in pair],
                    'preempted_caller': first, 'line_events': n_events,
                    'positions_enumerated': len(positions),
                    'complete': len(positions) == n_events})
                step = max(1, len(positions) // (2 * workers) + 1)
                for s_ in range(0, len(positions), step):
                    pre_futs.append(pool.submit(
                        _preempt_worker, pair, first, positions[s_:s_ + step]))
        lap_counts = list(pool.map(_count_lapack_c20, catalogue))
        lap_futs = []
        for op, cnt in zip(catalogue, lap_counts):
            for func, n in cnt.items():
                if n:
                    lap_futs.append(pool.submit(_enum_lapack_c20, op, func,
                                                list(range(n))))
        for label, f in futs:
            for n, viols, fired_sites, program in f.result():
                sites.update(fired_sites)
                for v in viols:
                    v = dict(v, enumerated_position=n)
                    violations.append((-1, program, v))
        pre_total = pre_switched = pre_bycatch = 0
        pre_sites = set()
        for f in pre_futs:
            for k, viols, switched, psites, program, byc in f.result():
                pre_bycatch += byc
                pre_total += 1
                pre_switched += 1 if switched else 0
                pre_sites.update(psites)
                for v in viols:
                    violations.append((-1, program, dict(v, preempted_after=k)))
        lap_total = lap_fired = lap_absorbed = 0
        lap_per_func = {}
        for f in lap_futs:
            for func, k, viols, counters, program in f.result():
                lap_total += 1
                lap_per_func[func] = lap_per_func.get(func, 0) + 1
                lap_fired += counters.get('fault_fired:lapack', 0)
                lap_absorbed += counters.get(
                    'probe:lapack_fault_absorbed_by_fallback', 0)
                for v in viols:
                    violations.append((-1, program, dict(v, lapack_fault=[func, k])))
    log(f'# C20 fixed catalogue: {len(catalogue)} operations, '
        f'{total_positions} interrupt positions enumerated '
        f'({sum(1 for e in per_entry if e["complete"])} operations completely) '
        f'({len(sites)} distinct file:line sites), {lap_total} LAPACK fault '
        f'positions {lap_per_func} ({lap_fired} fired, {lap_absorbed} absorbed), '
        f'{len(violations)} violations, {time.time() - t0:.1f}s')
    log(f'# C20 fixed catalogue: {len(pairs)} pairs of calls, {pre_total} '
        f'single pre-emption points enumerated ({pre_switched} switched, '
        f'{len(pre_sites)} distinct file:line sites; by-catch: '
        f'{pre_bycatch} shared-object mismatches)')
    return {
        'coverage': {'preemption_enumeration': {
            'exhaustive_over': 'for each catalogue pair of calls and each of the '
                               'two callers: every number k of Python line '
                               'events inside pb_bss after which the caller is '
                               'pre-empted, the other caller runs its whole '
                               'call, the first one finishes -- once with '
                               'objects of their own (O1, O5, O6, O8 deciding) '
                               'and once sharing trainer / aligner objects '
                               '(O1, O5, O6 deciding, result mismatches '
                               'recorded as by-catch)',
            'pairs': len(pairs), 'positions': pre_total,
            'switched': pre_switched, 'distinct_sites': len(pre_sites),
            'bycatch_shared_object_mismatches': pre_bycatch,
            'per_entry': pre_entries,
        }, 'interrupt_enumeration': {
            'exhaustive_over': 'every Python line event inside pb_bss of '
                               'each catalogue operation; each crash is '
                               'followed by the same operation fault-free on '
                               'the crashed shared trainer (O1, O3, O5, O6)',
            'operations': len(catalogue),
            'positions': total_positions,
            'distinct_sites_hit': len(sites),
            'per_entry': per_entry,
            'wall_s': round(time.time() - t0, 1),
        }, 'lapack_fault_enumeration': {
            'exhaustive_over': 'every call index of numpy.linalg.{eigh,eig,'
                               'solve,lstsq} issued from pb_bss during each '
                               'catalogue operation; each is followed by the '
                               'same operation fault-free on the same shared '
                               'objects (O1, O3, O5, O6)',
            'fault_positions': lap_total, 'per_function': lap_per_func,
            'fired': lap_fired, 'absorbed_by_fallback': lap_absorbed,
        }},
        'violations': violations,
    }
