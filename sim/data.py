"""Data catalogue: every array of a program is a small JSON spec
``{kind, shape, seed, dtype, layout, ...}`` and is regenerated from its own
``RandomState(seed)``; arrays are never stored in programs or replay files.
All arrays are handed out read-only.
"""
import numpy as np

LAYOUTS = ('C', 'F', 'neg', 'strided')


def _layout(a, layout):
    if layout == 'C' or a.ndim == 0:
        out = np.ascontiguousarray(a)
        if out is a:
            out = a.copy()
    elif layout == 'F':
        out = np.asfortranarray(a)
        if out is a:
            out = a.copy(order='F')
    elif layout == 'neg':
        out = np.ascontiguousarray(a[..., ::-1])[..., ::-1]
    elif layout == 'strided':
        big = np.zeros(a.shape[:-1] + (2 * a.shape[-1],), dtype=a.dtype)
        big[..., ::2] = a
        big[..., 1::2] = 7.5
        out = big[..., ::2]
    else:
        raise ValueError(layout)
    assert out.shape == a.shape
    return out


def _cnormal(rng, shape):
    return (rng.standard_normal(shape) + 1j * rng.standard_normal(shape)) \
        / np.sqrt(2)


def _raw(spec):
    rng = np.random.RandomState(int(spec['seed']) % (2 ** 32))
    kind = spec['kind']
    shape = tuple(spec['shape'])
    if kind == 'cnormal':
        a = _cnormal(rng, shape)
    elif kind == 'normal':
        a = rng.standard_normal(shape)
    elif kind == 'cclusters':
        # (..., N, D) observations from K zero-mean complex Gaussians with
        # random full-rank covariances, random labels (every class populated),
        # random per-frame complex gain.
        *lead, N, D = shape
        K = int(spec['K'])
        a = np.empty(shape, dtype=complex)
        cond = float(spec.get('spread', 1.0))
        for idx in np.ndindex(*lead):
            labels = np.concatenate(
                [np.arange(K), rng.randint(0, K, size=max(N - K, 0))])[:N]
            if spec.get('unbalanced'):
                # one dominant class, the others hold a few frames each
                labels = np.concatenate(
                    [np.repeat(np.arange(K), int(spec['unbalanced'])),
                     np.zeros(N, dtype=int)])[:N]
            rng.shuffle(labels)
            for k in range(K):
                A = _cnormal(rng, (D, D))
                if spec.get('real_valued'):
                    A = A.real * np.sqrt(2) + 0j
                # emphasise one direction per class, keep full rank
                v = _cnormal(rng, (D, 1))
                A = A * 0.4 * cond + 2.0 * v @ v.conj().T / np.sqrt(D)
                n = int(np.sum(labels == k))
                e = _cnormal(rng, (n, D))
                if spec.get('real_valued'):
                    # real-valued data handed over as complex (imaginary part 0)
                    e = e.real * np.sqrt(2) + 0j
                    v = v.real + 0j
                    A = A.real + 0j
                a[idx][labels == k] = e @ A.T
            if spec.get('duplicates'):
                # exactly repeated observations
                m = max(1, int(float(spec['duplicates']) * N))
                src = rng.randint(0, N, size=m)
                dst = rng.randint(0, N, size=m)
                a[idx][dst] = a[idx][src]
            a[idx] *= np.exp(rng.uniform(-1, 1, size=(N, 1)))
            dr = float(spec.get('dynamic_range', 0))
            if dr:
                # quiet and loud frames in one recording (directional models
                # only see the direction)
                a[idx] *= 10.0 ** rng.uniform(-dr, 0, size=(N, 1))
    elif kind == 'rclusters':
        *lead, N, D = shape
        K = int(spec['K'])
        a = np.empty(shape, dtype=float)
        sep = float(spec.get('sep', 2.0))
        for idx in np.ndindex(*lead):
            labels = np.concatenate(
                [np.arange(K), rng.randint(0, K, size=max(N - K, 0))])[:N]
            rng.shuffle(labels)
            for k in range(K):
                A = rng.standard_normal((D, D)) * 0.6 + np.eye(D) * 0.5
                m = rng.standard_normal(D) * sep
                n = int(np.sum(labels == k))
                a[idx][labels == k] = rng.standard_normal((n, D)) @ A.T + m
            if spec.get('order') == 'sorted':
                # concatenated segments instead of shuffled frames
                a[idx] = a[idx][np.argsort(labels, kind='stable')]
            if spec.get('outliers'):
                # a few frames far away from every cluster (clicks, glitches)
                far = float(spec.get('outlier_scale', 100.0))
                for _ in range(int(spec['outliers'])):
                    a[idx][int(rng.randint(N))] = rng.standard_normal(D) * far
        a = a * float(spec.get('scale', 1.0)) + float(spec.get('offset', 0.0))
    elif kind == 'affiliation':
        # strictly positive, sums to one over axis -2
        a = rng.uniform(0.05, 1.0, size=shape)
        a = a / a.sum(axis=-2, keepdims=True)
    elif kind == 'affiliation_onehotish':
        # peaked but strictly positive
        a = rng.uniform(0.01, 0.05, size=shape)
        lab = rng.randint(0, shape[-2], size=shape[:-2] + (1,) + shape[-1:])
        np.put_along_axis(a, lab, 1.0, axis=-2)
        a = a / a.sum(axis=-2, keepdims=True)
    elif kind == 'affiliation_peaked':
        # almost hard labels: 1e-12 everywhere else, strictly positive
        a = np.full(shape, 1e-12)
        lab = rng.randint(0, shape[-2], size=shape[:-2] + (1,) + shape[-1:])
        # every class holds frames in every slice
        K_ = shape[-2]
        lab[..., 0, :K_] = np.arange(K_)
        np.put_along_axis(a, lab, 1.0, axis=-2)
        a = a / a.sum(axis=-2, keepdims=True)
    elif kind == 'onehot':
        # hard one-hot affiliation (a class may be absent in a slice)
        a = np.zeros(shape)
        lab = rng.randint(0, shape[-2], size=shape[:-2] + (1,) + shape[-1:])
        np.put_along_axis(a, lab, 1.0, axis=-2)
    elif kind == 'uniform_zeros':
        # non-negative weights with exact zeros (whole slices may be zero)
        a = rng.uniform(float(spec.get('low', 0.0)),
                        float(spec.get('high', 1.0)), size=shape)
        a[rng.uniform(size=shape) < float(spec.get('p', 0.3))] = 0.0
        if len(shape) > 1 and rng.uniform() < 0.3:
            a[0] = 0.0
            a[0][..., 0] = 1.0
    elif kind == 'uniform':
        a = rng.uniform(float(spec.get('low', 0.0)),
                        float(spec.get('high', 1.0)), size=shape)
    elif kind == 'integers':
        a = rng.randint(int(spec.get('low', 1)),
                        int(spec.get('high', 4)) + 1,
                        size=shape).astype(float)
    elif kind == 'bool':
        a = rng.uniform(size=shape) < float(spec.get('p', 0.5))
        if spec.get('some_true'):
            a[..., 0] = True
            a[..., -1] = True
    elif kind == 'activity':
        # boolean source activity (..., K, N): every frame has >= 1 active
        # source, every source is active somewhere
        a = rng.uniform(size=shape) < float(spec.get('p', 0.7))
        lab = rng.randint(0, shape[-2], size=shape[:-2] + (1,) + shape[-1:])
        np.put_along_axis(a, lab, True, axis=-2)
        a[..., :, 0] = True
        if spec.get('silent_frames'):
            # frames in which no source is active at all
            a[..., :, 1 % shape[-1]] = False
            a[..., :, -1] = False
        if spec.get('class_off') and len(shape) > 2:
            # one source is switched off in a whole leading slice
            a[0, 0, :] = False
            a[0, 1, :] = True
    elif kind == 'hpd':
        # Hermitian positive definite (..., D, D)
        D = shape[-1]
        A = _cnormal(rng, shape[:-2] + (D, D + 2))
        a = A @ np.swapaxes(A.conj(), -1, -2) / (D + 2) \
            + float(spec.get('load', 0.05)) * np.eye(D)
    elif kind == 'spd':
        D = shape[-1]
        A = rng.standard_normal(shape[:-2] + (D, D + 2))
        a = A @ np.swapaxes(A, -1, -2) / (D + 2) \
            + float(spec.get('load', 0.05)) * np.eye(D)
        a = a * float(spec.get('mult', 1.0))
    elif kind == 'hsingular':
        # Hermitian PSD stack with some exactly singular members (a silent
        # bin: all zeros; a rank-one bin)
        D = shape[-1]
        A = _cnormal(rng, shape[:-2] + (D, D + 2))
        a = A @ np.swapaxes(A.conj(), -1, -2) / (D + 2) + 0.05 * np.eye(D)
        flat = a.reshape((-1, D, D))
        flat[0] = 0.0
        if flat.shape[0] > 2:
            v = _cnormal(rng, (D, 1))
            flat[-1] = v @ v.conj().T
        a = flat.reshape(shape)
    elif kind == 'hrank1':
        D = shape[-1]
        v = _cnormal(rng, shape[:-2] + (D, 1))
        a = v @ np.swapaxes(v.conj(), -1, -2)
    elif kind == 'unit_rows':
        a = rng.standard_normal(shape)
        a = a / np.linalg.norm(a, axis=-1, keepdims=True)
    elif kind in ('cconcentrated', 'rconcentrated'):
        # (..., N, D) observations around one direction per leading index:
        # v + noise * standard normal (concentrations from ~1 to > 500)
        *lead, N, D = shape
        noise = float(spec.get('noise', 0.1))
        cplx = kind == 'cconcentrated'
        a = np.empty(shape, dtype=complex if cplx else float)
        for idx in np.ndindex(*lead):
            v = _cnormal(rng, (D,)) if cplx else rng.standard_normal(D)
            v = v / np.linalg.norm(v)
            e = _cnormal(rng, (N, D)) if cplx else rng.standard_normal((N, D))
            ph = np.exp(1j * rng.uniform(0, 6.28, size=(N, 1))) if cplx else 1.0
            a[idx] = (v + noise * e) * ph
    elif kind == 'cdirectional':
        # (..., N, D) observations of K directional sources: mode h_k plus
        # complex noise of variance 1/kappa_k (Watson-like concentration
        # kappa_k, log-uniform in [kappa_low, kappa_high]), random phase and
        # gain per frame; every class populated
        *lead, N, D = shape
        K = int(spec['K'])
        lo, hi = float(spec.get('kappa_low', 5.0)), float(spec.get('kappa_high', 690.0))
        a = np.empty(shape, dtype=complex)
        for idx in np.ndindex(*lead):
            labels = np.concatenate(
                [np.arange(K), rng.randint(0, K, size=max(N - K, 0))])[:N]
            rng.shuffle(labels)
            for k in range(K):
                h = _cnormal(rng, (D,))
                h = h / np.linalg.norm(h)
                kappa = float(np.exp(rng.uniform(np.log(lo), np.log(hi))))
                n = int(np.sum(labels == k))
                a[idx][labels == k] = h + np.sqrt(1.0 / kappa) * _cnormal(rng, (n, D))
            a[idx] *= np.exp(1j * rng.uniform(0, 2 * np.pi, size=(N, 1)))
            a[idx] *= 10.0 ** rng.uniform(-2, 2, size=(N, 1))
    elif kind == 'cdiffuse':
        # (..., N, D) isotropic complex noise plus K weak directional sources
        # (power ``snr`` relative to the noise): nearly uniform directions,
        # Watson concentrations below 1 for large N
        *lead, N, D = shape
        K = int(spec['K'])
        snr = float(spec.get('snr', 0.01))
        a = _cnormal(rng, shape)
        for idx in np.ndindex(*lead):
            labels = rng.randint(0, K, size=N)
            for k in range(K):
                h = _cnormal(rng, (D,))
                h = h / np.linalg.norm(h) * np.sqrt(D)
                sel = labels == k
                a[idx][sel] += np.sqrt(snr) * _cnormal(rng, (int(sel.sum()), 1)) * h
    elif kind == 'basis_rows':
        # (N, D) complex rows cycling through a random unitary basis
        N, D = shape
        Q, _ = np.linalg.qr(_cnormal(rng, (D, D)))
        a = np.stack([Q[:, n % D] * np.exp(1j * rng.uniform(0, 6.28))
                      for n in range(N)])
    elif kind == 'explicit':
        a = np.asarray(spec['values'], dtype=float).reshape(shape)
    elif kind == 'permfield':
        # (K, F) integer mapping: a permutation of 0..K-1 per column
        K, F = shape
        a = np.stack([rng.permutation(K) for _ in range(F)], axis=1)
    else:
        raise ValueError(kind)
    if spec.get('zero_frames') and a.ndim >= 2:
        # exactly silent frames (digital silence)
        r2 = np.random.RandomState((int(spec['seed']) + 77) % (2 ** 32))
        N = a.shape[-2]
        for n in r2.choice(N, size=min(int(spec['zero_frames']), N - 1),
                           replace=False):
            a[..., int(n), :] = 0
    return a


def make(spec):
    """Materialise an array spec (read-only)."""
    a = _raw(spec)
    dtype = spec.get('dtype')
    if dtype:
        a = a.astype(dtype)
    a = _layout(a, spec.get('layout', 'C'))
    a.setflags(write=False)
    return a


def writable_copy(a):
    b = np.array(a, copy=True, order='K')
    b.setflags(write=True)
    return b
