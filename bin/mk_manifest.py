import json
na_reason = {
 'C01': 'value of one predict / initializer call as a function of its arguments (seed is an input); no schedule, restart, reused object, fault or interleaving can change whether it holds, so there is nothing for a simulator to search. Its in-loop clause (E-step = Bayes posterior) is decided as oracle R2 of C08.',
 'C03': 'output of one fit on a constructed separable scene: a pure function of the arguments; needs input generation, not simulation.',
 'C04': 'metamorphic relation between two independent calls (scaled vs unscaled observations); no history, fault or schedule involved.',
 'C05': 'relation between two independent calls (permuted vs unpermuted start); pure input->output.',
 'C06': 'stacked call vs per-slice calls with no shared state between them; pure input->output.',
 'C07': 'log_pdf against closed-form / quadrature densities: a formula identity per call, nothing to schedule or fail.',
 'C09': 'parameter-domain membership of one fit\'s result; the only environment-dependent path (LAPACK fallbacks) is exercised under C08 and monitored there as by-catch, not claimed.',
 'C10': 'PSD estimator is a formula identity per call; argument mutation is covered by C20.',
 'C11': 'algebraic constraints / optimality of one beamformer call; pure function of its arguments.',
 'C12': 'Rayleigh-quotient maximality per call; pure function of its arguments.',
 'C13': 'wrapper = composition of primitives and per-index action: relations between pure calls; the solve->lstsq fallback is triggered by an argument value (a singular bin), which input generation reaches, not by a fault.',
 'C14': 'the mapping is a function of the mask / score matrix; exhaustive small score matrices are enumeration, not simulation. Its in-EM clause (posterior and quadratic form permuted together) is decided as oracle R3 of C08.',
 'C15': 'optimal assignment / inversion of permutations per call; pure function, finite enumeration.',
 'C16': 'blind alignment of a generated mask and plan coverage: pure functions / finite enumeration.',
 'C17': 'composition of pure stages on a generated scene; nothing to schedule, crash or fail.',
 'C18': 'mask identities per call in every axis layout; pure functions.',
 'C19': 'metric identities per call; pure functions.',
}
import sys
claimed = sys.argv[1].split(',')
checks = {
 'C02': {
  'property_id': 'C02',
  'quick_cmd': 'bin/vcheck C02 --tier quick',
  'thorough_cmd': 'bin/vcheck C02 --tier thorough',
  'evidence_file': 'evidence/C02.json',
  'replay_cmd_template': 'bin/vcheck replay {path}',
  'engine': 'sim',
  'technique': 'deterministic simulation: seeded search over EM histories (stepped fits, split / restart / cancel schedules, shared crashed trainers) with a per-step likelihood monitor',
  'level_claimed': {
   'category': 'exploration',
   'text': 'Seeded search over fit histories: every EM step of every simulated history (whole fits up to 30/50 iterations, cACGMM fits split into consecutive continued fits, restarts from older checkpoints, cancellation at a step boundary, fits on trainer objects that earlier ran / crashed other fits) is observed through the guarded step hook and the mixture log-likelihood computed from the reported model must not decrease beyond 1e-9 relative; CACGMM.log_likelihood must equal that quantity. A clean batch is evidence, not proof; ~4e4 histories / 4e5 steps per quick run.',
   'design_ref': 'DESIGN.md §3.2'
  },
  'level_note': 'Trusts the component log_pdf of the library as p_k (C07 is not decided), numpy/scipy, and the step hook reporting the loop\'s real variables. Tolerance 1e-9 relative (calibrated, worst rounding 3e-13). Prefix cut where a numerical guard named by the property is active.'
 },
 'C08': {
  'property_id': 'C08',
  'quick_cmd': 'bin/vcheck C08 --tier quick',
  'thorough_cmd': 'bin/vcheck C08 --tier thorough',
  'evidence_file': 'evidence/C08.json',
  'replay_cmd_template': 'bin/vcheck replay {path}',
  'engine': 'sim',
  'technique': 'deterministic simulation: step-by-step refinement of every stepped EM iteration against an independent executable reference model (Spec-EM), with injected LAPACK failures and cancellation',
  'level_claimed': {
   'category': 'exploration',
   'text': 'Every EM step of seeded fit histories of all seven mixture trainers is compared, from the implementation\'s own state, with an independently written reference E-step (Bayes rule on the component log_pdf) and M-step (documented weighted estimators), including schedule (n iterations = n alternations, returned model = last model, fit_predict = posterior of that model), the quadratic form of the preceding E-step, joint permutation under inline alignment and that the alignment is the one the aligner computes, and under injected LAPACK failures (a fallback may fail, it may not return a wrong estimator; every LAPACK call index of a fixed catalogue fails once). Also the stand-alone distribution trainers on shared trainer objects, n-fold Tyler steps and their fixed point, and the integer-saliency repetition law. One genuine defect (Bingham, near-duplicate scatter eigenvalues) is a listed known finding.',
   'design_ref': 'DESIGN.md §3.3'
  },
  'level_note': 'Trusts numpy/scipy and the reference model in sim/spec_em.py (written from the formulas in the property, not from the code). Tolerances 1e-8 relative per step (no accumulation: each step is checked from the implementation\'s own previous state).'
 },
 'C20': {
  'property_id': 'C20',
  'quick_cmd': 'bin/vcheck C20 --tier quick',
  'thorough_cmd': 'bin/vcheck C20 --tier thorough',
  'evidence_file': 'evidence/C20.json',
  'replay_cmd_template': 'bin/vcheck replay {path}',
  'engine': 'sim',
  'technique': 'deterministic simulation with fault injection: seeded operation histories over a shared world (read-only digested arrays, reused trainers, global RNG) checked against a fresh-world replica, with injected interrupts, cancellations and LAPACK failures, and pairs of calls issued by two caller threads under a seeded pre-emption schedule',
  'level_claimed': {
   'category': 'exploration',
   'text': 'Seeded search over histories of public API calls on one shared world: all arrays are handed over read-only and byte-digested after every operation, pooled models included (O1), every operation is repeated with the RNG restored (O2), compared bitwise with a fresh-world replica (O3: reused trainer / aligner == fresh one, or an explicit rejection after a dimension change), cACGMM split / restart schedules equal the uninterrupted fit bitwise (O4), operations with a given start leave the global RNG untouched (O5), no global numpy state leaks (O6), a sample of the calls is repeated at the end of the session (O7), pairs of calls run on two caller threads under a seeded schedule of pre-emptions (one baton, switches only at Python line events inside pb_bss) must each return what the call returns alone (O8; deciding for callers that share no object - only hidden module-level state can couple them -, by-catch for callers sharing one trainer / aligner object, whose thread-safety the property does not claim), and a sample of whole runs is repeated in a pristine forked process (module-level state) - also after injected interrupts at Python line granularity, cancellations and LAPACK failures. Interrupt sites, LAPACK call indices and single pre-emption points of a fixed catalogue are enumerated completely.',
   'design_ref': 'DESIGN.md §3.1'
  },
  'level_note': 'Trusts numpy/scipy determinism in one process with single-threaded BLAS (self-tested). Interrupts and thread switches are Python-line granular (NumPy calls are atomic); calls that draw from the global RNG are never paired across threads. The metrics of evaluation.wrapper that need optional dependencies (pesq, pystoi, mir_eval, srmr) are outside the catalogue.'
 },
}
m = {
 'version': 1,
 'setup_cmd': 'bin/setup',
 'hooks': {
  'guard': 'PB_BSS_VERIF',
  'enable': 'environment variable PB_BSS_VERIF=1 (set by bin/vcheck before pb_bss is imported); nothing to build, pb_bss is imported from the working tree via PYTHONPATH=$VERIF_REPO (default /repo)',
  'baseline_off_cmd': 'bin/suite_check /repo',
  'source_commits': ['b08d227'],
  'add_only': True,
 },
 'engines': [{'name': 'sim', 'path': 'sim/', 'serves_properties': claimed,
              'kind_free_text': 'hand-written deterministic simulator: seeded program generator, interpreter over a shared world, seams (global RNG, EM step observer, numpy.linalg shim, sys.settrace interrupts, two caller threads under one baton with a seeded pre-emption schedule, BLAS thread limits, forked pristine-process replica), reference models, ddmin shrinker, replay files'}],
 'checks': [checks[c] for c in claimed],
 'not_applicable': [{'property_id': k, 'reason': v} for k, v in na_reason.items()]
   + [{'property_id': c, 'reason': 'claimed in DESIGN.md §3 but its check is not part of this commit yet (under construction)'} for c in ('C02','C08','C20') if c not in claimed],
 'notes': 'Technique family: deterministic simulation with fault injection. pb_bss has no threads of its own, no timers, sockets or file I/O; the simulated system is one process-wide session (shared arrays, reused trainer objects, global numpy RNG, models fed back into the library) driven through seeded histories with injected faults. 17 of 20 properties are pure input->output statements and are listed as not applicable (DESIGN.md §5). Fix commits in /repo: 25f396a, e894685, 0b37955, 0720361, ddbc90f, 0ae8eff, b91eedc, 537b390 (see known_findings.json; one further defect is a listed known finding of C08).',
}
json.dump(m, open('/verif/MANIFEST.json','w'), indent=1)
